// Package c12: proto bytes are standard protobuf wire format, both ways, judged by the
// reference implementation google.golang.org/protobuf (dynamicpb over descriptors built from
// the Go struct type by the table proto.TypeOf documents).
package c12

import (
	"bytes"
	"fmt"
	"reflect"

	"github.com/segmentio/encoding/proto"
	"google.golang.org/protobuf/encoding/protowire"
	refproto "google.golang.org/protobuf/proto"
	"google.golang.org/protobuf/reflect/protoreflect"
	"google.golang.org/protobuf/types/dynamicpb"
	"verifharness/core"
	"verifharness/gen/pdesc"
	"verifharness/gen/ptypes"
	"verifharness/gen/pwire"
	"verifharness/mon/c03"
)

func noCustom(reflect.Type) bool { return false }

func tr(b []byte) []byte {
	if len(b) > 96 {
		return b[:96]
	}
	return b
}

func show(v reflect.Value) string {
	s := fmt.Sprintf("%+v", v.Interface())
	if len(s) > 260 {
		s = s[:260] + "…"
	}
	return s
}

// stripEmptyMapMarkers removes the package's empty-map marker (a zero-length entry of a map
// field) from an encoding: known finding empty-map-marker, checked by its own sub-monitor.
func stripEmptyMapMarkers(b []byte, t reflect.Type, n *int) []byte {
	for t.Kind() == reflect.Pointer {
		t = t.Elem()
	}
	fs, ok := pwire.Fields(b)
	if !ok || t.Kind() != reflect.Struct {
		return b
	}
	types := map[int]reflect.Type{}
	for _, fi := range pwire.FieldsOf(t) {
		types[fi.Number] = fi.Type
	}
	var out []byte
	for _, f := range fs {
		ft, known := types[f.Num]
		if known && f.Typ == int(protowire.BytesType) {
			bt := ft
			for bt.Kind() == reflect.Pointer {
				bt = bt.Elem()
			}
			payload := b[f.ValStart:f.End]
			switch {
			case bt.Kind() == reflect.Map && len(payload) == 0:
				*n++
				continue
			case bt.Kind() == reflect.Map:
				entry := reflect.StructOf([]reflect.StructField{{Name: "Key", Type: bt.Key()}, {Name: "Elem", Type: bt.Elem()}})
				inner := stripEmptyMapMarkers(payload, entry, n)
				out = protowire.AppendTag(out, protowire.Number(f.Num), protowire.BytesType)
				out = protowire.AppendBytes(out, inner)
				continue
			case bt.Kind() == reflect.Struct, bt.Kind() == reflect.Slice && bt.Elem().Kind() != reflect.Uint8:
				et := bt
				if et.Kind() == reflect.Slice {
					et = et.Elem()
				}
				for et.Kind() == reflect.Pointer {
					et = et.Elem()
				}
				if et.Kind() == reflect.Struct {
					inner := stripEmptyMapMarkers(payload, et, n)
					out = protowire.AppendTag(out, protowire.Number(f.Num), protowire.BytesType)
					out = protowire.AppendBytes(out, inner)
					continue
				}
			}
		}
		out = append(out, b[f.Start:f.End]...)
	}
	return out
}

func checkBothWays(c *core.Case, family string, t reflect.Type, md protoreflect.MessageDescriptor, v reflect.Value) {
	class := family + "|" + c03.Shape(t)
	w := map[string]any{"type": ptypes.TypeString(t), "value": show(v)}
	// direction 1: the package's bytes read by the reference implementation
	var pb []byte
	var err error
	if sig, stk := core.Guard(func() { pb, err = proto.Marshal(v.Interface()) }); sig != "" || err != nil {
		c.Count("skipped.marshal-fails(C03)", 1)
		_ = stk
		return
	}
	markers := 0
	std := stripEmptyMapMarkers(pb, t, &markers)
	c.Count("known.empty-map-markers-stripped", markers)
	msg := dynamicpb.NewMessage(md)
	if e := (refproto.UnmarshalOptions{}).Unmarshal(std, msg); e != nil {
		c.Violation(class, "reference-rejects-package-bytes", fmt.Sprintf("the reference implementation rejects Marshal output %x: %v | value %s", tr(pb), e, show(v)), w)
		return
	}
	if len(msg.GetUnknown()) != 0 {
		c.Violation(class, "reference-sees-unknown-fields", fmt.Sprintf("the reference implementation finds undeclared fields %x in Marshal output %x | value %s", tr(msg.GetUnknown()), tr(pb), show(v)), w)
		return
	}
	got := pdesc.FromDynamic(msg, t)
	if ok, d := ptypes.EqualSign(v, got); !ok {
		c.Violation(class, "reference-decodes-differently", fmt.Sprintf("Marshal output %x read by the reference implementation: %s | value %s | reference sees %s", tr(pb), d, show(v), show(got)), w)
		return
	}
	c.Count("direction1.ok", 1)
	// direction 2: reference bytes (and legal re-encodings) read by the package
	want := pdesc.ToDynamic(md, v)
	rb, e := (refproto.MarshalOptions{Deterministic: true}).Marshal(want)
	if e != nil {
		c.Count("skipped.reference-marshal-error", 1)
		return
	}
	stats := map[string]int{}
	for k := 0; k < 6; k++ {
		in := rb
		if k > 0 {
			in = pwire.Reencode(c.Rng, rb, t, noCustom, stats)
			// the re-encoding must itself be equivalent for the reference implementation
			chk := dynamicpb.NewMessage(md)
			if e := refproto.Unmarshal(in, chk); e != nil || !refproto.Equal(chk, want) {
				c.Count("generator.reencoding-not-equivalent-for-reference", 1)
				continue
			}
		}
		if k > 0 && len(in) > 1 && c.Index%2 == 0 {
			// history: a decode of the same type that fails inside its last field first
			core.Guard(func() { proto.Unmarshal(in[:len(in)-1:len(in)-1], reflect.New(t).Interface()) })
			c.Count("history.failed-decodes", 1)
		}
		out := reflect.New(t)
		var ue error
		if sig, stk := core.Guard(func() { ue = proto.Unmarshal(append([]byte(nil), in...), out.Interface()) }); sig != "" {
			c.Violation(class, "unmarshal-"+sig, fmt.Sprintf("Unmarshal of the reference encoding %x panicked: %s", tr(in), stk), w)
			return
		}
		kind := "reference-encoding"
		if k > 0 {
			kind = "legal-reencoding"
		}
		if ue != nil {
			c.Violation(class, kind+"-rejected", fmt.Sprintf("Unmarshal rejects the %s %x (canonical %x): %v | value %s", kind, tr(in), tr(rb), ue, show(v)), w)
			return
		}
		if ok, d := ptypes.Equal(v, out.Elem()); !ok {
			c.Violation(class, kind+"-decodes-differently", fmt.Sprintf("Unmarshal of the %s %x (canonical %x): %s | value %s", kind, tr(in), tr(rb), d, show(v)), w)
			return
		}
		c.Count("direction2.ok", 1)
	}
	for k, n := range stats {
		c.Count("reencode."+k, n)
	}
}

func runGenerated(c *core.Case) {
	cfg := ptypes.DefaultCfg
	cfg.RefOnly = true
	cfg.Custom = false
	cfg.BigNumbers = c.Index%4 == 0
	cfg.MaxFields = 7
	t := ptypes.New(c.Rng.Fork(1), cfg).Message(0)
	c.Journal("generated")
	md, err := pdesc.Descriptor(t)
	if err != nil {
		c.Count("generator.no-descriptor", 1)
		return
	}
	f := &ptypes.Filler{R: c.Rng.Fork(2), NoNaN: true, NoNilMapValues: true}
	for k := 0; k < 2; k++ {
		checkBothWays(c, "generated", t, md, f.NewValue(t))
	}
	if uniformTags(t, 0) {
		checkTypeOf(c, t, md)
	} else {
		c.Count("typeof.skipped-mixed-tagged-and-untagged", 1) // TypeOf refuses such structs by design (panic)
	}
	c.Distinct(core.HashString(t.String()), t.NumField() > 0)
	c.Sample(len(t.String())/80, map[string]any{"sub": "generated", "type": ptypes.TypeString(t), "descriptor_fields": md.Fields().Len()})
}

// uniformTags: every struct reachable from t has either all or none of its exported fields tagged.
func uniformTags(t reflect.Type, depth int) bool {
	for t.Kind() == reflect.Pointer || t.Kind() == reflect.Slice || t.Kind() == reflect.Map {
		if t.Kind() == reflect.Map && !uniformTags(t.Key(), depth+1) {
			return false
		}
		t = t.Elem()
	}
	if t.Kind() != reflect.Struct || depth > 10 {
		return true
	}
	tagged, untagged := 0, 0
	for i := 0; i < t.NumField(); i++ {
		f := t.Field(i)
		if !f.IsExported() {
			continue
		}
		if _, ok := f.Tag.Lookup("protobuf"); ok {
			tagged++
		} else {
			untagged++
		}
		if !uniformTags(f.Type, depth+1) {
			return false
		}
	}
	return tagged == 0 || untagged == 0
}

var kindOf = map[proto.Kind]protoreflect.Kind{
	proto.Bool: protoreflect.BoolKind, proto.Int32: protoreflect.Int32Kind, proto.Int64: protoreflect.Int64Kind, proto.Sint32: protoreflect.Sint32Kind, proto.Sint64: protoreflect.Sint64Kind,
	proto.Uint32: protoreflect.Uint32Kind, proto.Uint64: protoreflect.Uint64Kind, proto.Fix32: protoreflect.Fixed32Kind, proto.Fix64: protoreflect.Fixed64Kind, proto.Sfix32: protoreflect.Sfixed32Kind, proto.Sfix64: protoreflect.Sfixed64Kind,
	proto.Float: protoreflect.FloatKind, proto.Double: protoreflect.DoubleKind, proto.String: protoreflect.StringKind, proto.Bytes: protoreflect.BytesKind, proto.Struct: protoreflect.MessageKind,
}

// checkTypeOf compares proto.TypeOf with the descriptor (numbers, kinds, repeated).
func checkTypeOf(c *core.Case, t reflect.Type, md protoreflect.MessageDescriptor) {
	var pt proto.Type
	if sig, stk := core.Guard(func() { pt = proto.TypeOf(t) }); sig != "" {
		c.Violation("TypeOf|"+c03.Shape(t), sig, stk, map[string]any{"type": ptypes.TypeString(t)})
		return
	}
	if pt.Kind() != proto.Struct || pt.NumField() != md.Fields().Len() {
		c.Violation("TypeOf|"+c03.Shape(t), "field-count", fmt.Sprintf("TypeOf(%s) has %d fields, the descriptor %d", t, pt.NumField(), md.Fields().Len()), nil)
		return
	}
	for i := 0; i < pt.NumField(); i++ {
		f := pt.Field(i)
		fd := md.Fields().ByNumber(protoreflect.FieldNumber(f.Number))
		if fd == nil {
			c.Violation("TypeOf|field-number", "number-diff", fmt.Sprintf("TypeOf(%s) reports field number %d which the struct does not declare", t, f.Number), map[string]any{"type": ptypes.TypeString(t)})
			return
		}
		if fd.IsMap() {
			if f.Type.Kind() != proto.Map {
				c.Violation("TypeOf|map", "kind-diff", fmt.Sprintf("TypeOf(%s) field %d: kind %v, want map", t, f.Number, f.Type.Kind()), nil)
			}
			continue
		}
		if want, ok := kindOf[f.Type.Kind()]; !ok || want != fd.Kind() {
			c.Violation("TypeOf|"+fd.Kind().String(), "kind-diff", fmt.Sprintf("TypeOf(%s) field %d: kind %s, the struct tag / Go kind stands for %s", t, f.Number, f.Type.Name(), fd.Kind()), map[string]any{"type": ptypes.TypeString(t)})
			return
		}
		if f.Repeated != fd.IsList() {
			c.Violation("TypeOf|repeated", "repeated-diff", fmt.Sprintf("TypeOf(%s) field %d: Repeated=%v, want %v", t, f.Number, f.Repeated, fd.IsList()), nil)
			return
		}
	}
	c.Count("typeof.checked", 1)
}

// witnessEmptyMapMarker: the bytes written for an empty map are not what they mean to a standard decoder.
func witnessEmptyMapMarker(c *core.Case) {
	c.Journal("empty-map-marker")
	type T struct {
		A int32
		M map[int32]int32
	}
	md, err := pdesc.Descriptor(reflect.TypeOf(T{}))
	if err != nil {
		return
	}
	pb, _ := proto.Marshal(T{A: 1, M: map[int32]int32{}})
	msg := dynamicpb.NewMessage(md)
	if e := refproto.Unmarshal(pb, msg); e != nil {
		c.Violation("empty-map-marker", "reference-rejects", fmt.Sprintf("%x: %v", pb, e), nil)
		return
	}
	got := pdesc.FromDynamic(msg, reflect.TypeOf(T{})).Interface().(T)
	var back T
	e2 := proto.Unmarshal([]byte{0x08, 0x01, 0x12, 0x00}, &back)
	if len(got.M) != 0 || e2 != nil || len(back.M) != 1 {
		c.Violation("empty-map-marker", "reference-decodes-differently", fmt.Sprintf("Marshal(T{A:1, M:map[int32]int32{}}) = %x: the reference implementation reads M=%v (an entry with default key and value); conversely Unmarshal reads the legal entry encoding 1200 as M=%v", pb, got.M, back.M), nil)
	}
}

// ---- map entries with absent members, after decodes that failed inside an entry --------------------

type mapHist struct {
	S map[string]string `protobuf:"bytes,1,rep,name=s" protobuf_key:"bytes,1,opt,name=key" protobuf_val:"bytes,2,opt,name=value"`
	I map[int64]int64   `protobuf:"bytes,2,rep,name=i" protobuf_key:"varint,1,opt,name=key" protobuf_val:"varint,2,opt,name=value"`
	B map[string][]byte `protobuf:"bytes,3,rep,name=b" protobuf_key:"bytes,1,opt,name=key" protobuf_val:"bytes,2,opt,name=value"`
	U map[uint32]string `protobuf:"bytes,4,rep,name=u" protobuf_key:"varint,1,opt,name=key" protobuf_val:"bytes,2,opt,name=value"`
}

func runMapHistory(c *core.Case) {
	r := c.Rng
	c.Journal("map-entry-history")
	field := r.Range(1, 4)
	entry := func(key, val []byte, withKey, withVal bool, cut int) []byte {
		var e []byte
		if withKey {
			e = append(e, key...)
		}
		if withVal {
			e = append(e, val...)
		}
		if cut > 0 && cut < len(e) {
			e = e[:len(e)-cut]
		}
		out := protowire.AppendTag(nil, protowire.Number(field), protowire.BytesType)
		return protowire.AppendBytes(out, e)
	}
	mkKey := func() ([]byte, any) {
		switch field {
		case 1, 3:
			k := r.ASCIIString(1, 8)
			return protowire.AppendString(protowire.AppendTag(nil, 1, protowire.BytesType), k), k
		case 2:
			k := r.Int64()
			return protowire.AppendVarint(protowire.AppendTag(nil, 1, protowire.VarintType), uint64(k)), k
		default:
			k := uint32(r.Uint64B())
			return protowire.AppendVarint(protowire.AppendTag(nil, 1, protowire.VarintType), uint64(k)), k
		}
	}
	mkVal := func() ([]byte, any) {
		switch field {
		case 1, 4:
			v := r.ASCIIString(1, 8)
			return protowire.AppendString(protowire.AppendTag(nil, 2, protowire.BytesType), v), v
		case 2:
			v := r.Int64()
			return protowire.AppendVarint(protowire.AppendTag(nil, 2, protowire.VarintType), uint64(v)), v
		default:
			v := r.Bytes(r.Range(1, 6))
			return protowire.AppendBytes(protowire.AppendTag(nil, 2, protowire.BytesType), v), v
		}
	}
	// 1. decodes that fail inside an entry, after its key and / or value were read
	for k := r.Range(1, 3); k > 0; k-- {
		kb, _ := mkKey()
		vb, _ := mkVal()
		bad := entry(kb, vb, true, true, 0)
		switch r.Intn(3) {
		case 0:
			bad = append(bad[:len(bad):len(bad)], 0x80) // trailing garbage after a complete entry
		case 1:
			bad = entry(kb, append(vb, 0x1a, 0x05), true, true, 0) // an unknown member that is truncated
		default:
			bad = entry(kb, append(vb, 0xff), true, true, 0)
		}
		var sink mapHist
		core.Guard(func() { proto.Unmarshal(bad, &sink) })
	}
	// 2. a message whose entries leave out the key, the value, or nothing
	var in []byte
	n := r.Range(1, 4)
	for i := 0; i < n; i++ {
		kb, _ := mkKey()
		vb, _ := mkVal()
		mode := r.Intn(3)
		in = append(in, entry(kb, vb, mode != 0, mode != 1, 0)...)
	}
	md, err := pdesc.Descriptor(reflect.TypeOf(mapHist{}))
	if err != nil {
		c.Count("generator.no-descriptor", 1)
		return
	}
	ref := dynamicpb.NewMessage(md)
	if e := refproto.Unmarshal(in, ref); e != nil {
		c.Count("generator.reference-rejects", 1)
		return
	}
	wv := pdesc.FromDynamic(ref, reflect.TypeOf(mapHist{}))
	want := wv.Interface()
	var got mapHist
	var ue error
	if sig, stk := core.Guard(func() { ue = proto.Unmarshal(in, &got) }); sig != "" {
		c.Violation("map-entry-history", sig, stk, nil)
		return
	}
	if ue != nil {
		c.Violation("map-entry-history", "rejected", fmt.Sprintf("Unmarshal rejects %x: %v", tr(in), ue), nil)
		return
	}
	if ok, d := ptypes.Equal(wv, reflect.ValueOf(&got).Elem()); !ok {
		c.Violation("map-entry-history", "entry-with-absent-member-decodes-differently", fmt.Sprintf("%s | after decodes of the same type that failed inside a map entry, %x decodes to %+v, the reference implementation gives %+v", d, tr(in), got, want), map[string]any{"input_hex": fmt.Sprintf("%x", in)})
		return
	}
	c.Count("map-entry-history.checked", 1)
	c.Distinct(core.HashBytes(in), true)
}

// ---- custom message types nested in messages ----------------------------------------------------

type customHolder struct {
	A  int64            `protobuf:"varint,1,opt,name=a"`
	M  ptypes.MsgT      `protobuf:"bytes,2,opt,name=m"`
	PM *ptypes.MsgT     `protobuf:"bytes,3,opt,name=pm"`
	G  ptypes.GogoT     `protobuf:"bytes,4,opt,name=g"`
	PG *ptypes.GogoT    `protobuf:"bytes,5,opt,name=pg"`
	R  proto.RawMessage `protobuf:"bytes,6,opt,name=r"`
	LM []ptypes.MsgT    `protobuf:"bytes,7,rep,name=lm"`
	LG []ptypes.GogoT   `protobuf:"bytes,300,rep,name=lg"`
	Z  int64            `protobuf:"varint,70000,opt,name=z"`
}

// runCustom: a field whose Go type implements Message (or the gogo-style interface) is an
// ordinary length-delimited field on the wire: tag, length, then exactly the bytes the type's
// own Marshal produced.
func runCustom(c *core.Case) {
	r := c.Rng
	c.Journal("custom-fields")
	v := customHolder{A: r.Int64(), Z: r.Int64()}
	want := map[int][][]byte{}
	msg := func() ptypes.MsgT { return ptypes.MsgT{B: r.Bytes(r.Intn(200))} }
	gogo := func() ptypes.GogoT { return ptypes.GogoT{Hi: uint32(r.Uint64()), Lo: uint32(r.Uint64())} }
	encM := func(m ptypes.MsgT) []byte { b := make([]byte, m.Size()); m.Marshal(b); return b }
	encG := func(g ptypes.GogoT) []byte { b := make([]byte, 8); g.MarshalTo(b); return b }
	if r.Bool() {
		v.M = msg()
	}
	want[2] = [][]byte{encM(v.M)}
	if r.Bool() {
		m := msg()
		v.PM = &m
		want[3] = [][]byte{encM(m)}
	}
	if r.Bool() {
		v.G = gogo()
	}
	want[4] = [][]byte{encG(v.G)}
	if r.Bool() {
		g := gogo()
		v.PG = &g
		want[5] = [][]byte{encG(g)}
	}
	if r.Bool() {
		v.R = proto.RawMessage(r.Bytes(r.Range(1, 150)))
		want[6] = [][]byte{[]byte(v.R)}
	}
	for k := r.Intn(4); k > 0; k-- {
		m := msg()
		v.LM = append(v.LM, m)
		want[7] = append(want[7], encM(m))
	}
	for k := r.Intn(4); k > 0; k-- {
		g := gogo()
		v.LG = append(v.LG, g)
		want[300] = append(want[300], encG(g))
	}
	b, err := proto.Marshal(&v)
	if err != nil {
		c.Violation("custom-fields", "marshal-error", err.Error(), nil)
		return
	}
	fs, ok := pwire.Fields(b)
	if !ok {
		c.Violation("custom-fields", "not-wire-format", fmt.Sprintf("Marshal wrote %x, which the reference scanner rejects", tr(b)), nil)
		return
	}
	got := map[int][][]byte{}
	for _, f := range fs {
		if f.Num >= 2 && f.Num <= 300 && f.Typ == 2 {
			got[f.Num] = append(got[f.Num], b[f.ValStart:f.End])
		}
	}
	for num, ws := range want {
		gs := got[num]
		// singular zero-valued members may be omitted altogether
		if len(ws) == 1 && len(gs) == 0 && (num == 2 || num == 4) {
			continue
		}
		same := len(gs) == len(ws)
		for i := 0; same && i < len(ws); i++ {
			same = bytes.Equal(gs[i], ws[i])
		}
		if !same {
			c.Violation(fmt.Sprintf("custom-fields|field%d", num), "payload-is-not-the-types-own-encoding", fmt.Sprintf("field %d holds %x on the wire; the type's own Marshal gives %x (message %x)", num, gs, ws, tr(b)), map[string]any{"bytes_hex": fmt.Sprintf("%x", tr(b))})
			return
		}
	}
	// and back
	var back customHolder
	if err := proto.Unmarshal(b, &back); err != nil {
		c.Violation("custom-fields", "unmarshal-error", err.Error(), nil)
		return
	}
	if ok, d := ptypes.Equal(reflect.ValueOf(&v).Elem(), reflect.ValueOf(&back).Elem()); !ok {
		c.Violation("custom-fields", "value-diff", d, nil)
	}
	c.Count("custom-fields.checked", len(want))
	c.Distinct(core.HashBytes(b), true)
}

func init() {
	pdesc.Carries = func(v reflect.Value) bool { return !ptypes.NilEquivalent(v.Addr()) }
	core.Register(&core.Monitor{
		Prop:      "C12",
		Witnesses: map[string]func(*core.Case){"empty-map-marker": witnessEmptyMapMarker},
		Rule:      "generated: a message type from the C03 generator restricted to kinds with a .proto equivalent (no byte arrays, no custom types) and its descriptor (proto2 syntax, fields numbered by declaration order or tag, Go kinds mapped by the table of proto.TypeOf, sint/fixed from tags, unpacked repeated scalars, nested messages, map entries) x 2 values. Direction 1: proto.Marshal output is unmarshalled by dynamicpb (no error, no unknown fields) and converted back to a Go value that must equal the original (nil == empty; floats by ==). Direction 2: the value is marshalled deterministically by the reference implementation and given to proto.Unmarshal as is and in 5 legal re-encodings (fields reordered, non-minimal varints in tags/lengths/values, an overridden earlier occurrence of singular scalars, singular embedded messages split into two occurrences, map entries with the value first or with a zero-valued key/value left out; every second case a failing decode of the truncated input precedes the decode; each re-encoding is first checked to be equivalent for the reference implementation). proto.TypeOf is compared with the descriptor (number, kind, repeated). Distinct by type string. map-entry-history: after 1-3 decodes that fail inside a map entry (trailing garbage, truncated unknown member), a message whose map entries leave out the key or the value (absent = zero) must decode as the reference implementation decodes it. custom-fields: fields whose Go type implements Message or the gogo-style interface (by value, by pointer, repeated; RawMessage) must appear as tag, length and exactly the bytes of the type's own Marshal, checked with the reference scanner. The package's empty-map marker is stripped before direction 1 and reported by its own sub-monitor.",
		Trusted:   []string{"google.golang.org/protobuf v1.25.0 (dynamicpb, protodesc, protowire) as the reference implementation", "the descriptor builder gen/pdesc (transcription of the proto.TypeOf table and of the struct tag grammar)", "gen/pwire.Reencode, each output validated against the reference implementation before use"},
		Subs: []core.Sub{
			{Name: "generated", N: core.Const(12000, 400000), Run: runGenerated},
			{Name: "map-entry-history", N: core.Const(3000, 100000), Run: runMapHistory},
			{Name: "custom-fields", N: core.Const(2000, 50000), Run: runCustom},
			{Name: "empty-map-marker", N: core.Const(1, 1), Run: func(c *core.Case) { witnessEmptyMapMarker(c); c.Distinct(5, true) }},
		},
	})
}
