#!/bin/bash
# usage: mutant.sh <patch.diff> <property> [quick|thorough]
# applies a seeded change to /repo, runs the property's check, and reverts /repo.
patch=$1; prop=$2; tier=${3:-quick}
cd /repo || exit 2
if ! git diff --quiet; then echo "/repo has local modifications; refusing"; exit 2; fi
git apply "$patch" || { echo "patch does not apply"; exit 2; }
cd /verif && ./check "$prop" "$tier"; rc=$?
git -C /repo checkout -- . ; git -C /repo clean -fdq
echo "mutant-result patch=$patch property=$prop exit=$rc"
exit $rc
