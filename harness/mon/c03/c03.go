// Package c03: proto Unmarshal(Marshal(v)) == v and Size(v) == len(Marshal(v)).
package c03

import (
	"bytes"
	"fmt"
	"reflect"
	"strings"

	"github.com/segmentio/encoding/proto"
	"verifharness/core"
	"verifharness/gen/ptypes"
)

// Shape is a short structural description of a (field) type for finding keys.
func Shape(t reflect.Type) string {
	switch t {
	case ptypes.TMsg:
		return "MsgT"
	case ptypes.TGogo:
		return "GogoT"
	case ptypes.TGogoV:
		return "GogoV"
	case ptypes.TRaw:
		return "RawMessage"
	}
	switch t.Kind() {
	case reflect.Pointer:
		return "*" + Shape(t.Elem())
	case reflect.Slice:
		if t.Elem().Kind() == reflect.Uint8 {
			return "bytes"
		}
		return "[]" + Shape(t.Elem())
	case reflect.Array:
		return fmt.Sprintf("[%d]byte", t.Len())
	case reflect.Map:
		return "map[" + Shape(t.Key()) + "]" + Shape(t.Elem())
	case reflect.Struct:
		switch t.NumField() {
		case 0:
			return "struct{}"
		case 1:
			return "struct{" + Shape(t.Field(0).Type) + TagClass(t.Field(0)) + "}"
		}
		return "struct"
	}
	return t.Kind().String()
}

// TagClass summarises the protobuf tag of a field: wire word and field-number magnitude.
func TagClass(f reflect.StructField) string {
	tag, ok := f.Tag.Lookup("protobuf")
	if !ok {
		return ""
	}
	parts := strings.Split(tag, ",")
	s := ""
	switch parts[0] {
	case "zigzag32", "zigzag64", "fixed32", "fixed64":
		s = "," + parts[0]
	}
	if len(parts) > 1 {
		var n int
		fmt.Sscan(parts[1], &n)
		switch {
		case n > 65535:
			s += ",num>65535"
		case n > 2047:
			s += ",num>2047"
		case n > 15:
			s += ",num>15"
		}
	}
	return s
}

type outcome struct {
	how    string
	detail string
}

func iface(v reflect.Value) (x any, ok bool) {
	defer func() {
		if recover() != nil {
			ok = false
		}
	}()
	return v.Interface(), true
}

// roundTrip checks every clause of the statement on one value; "" = holds.
func roundTrip(v reflect.Value) (o outcome) {
	x, ok := iface(v)
	if !ok {
		return
	}
	t := v.Type()
	var b, b2 []byte
	var err error
	var size int
	if sig, stk := core.Guard(func() {
		size = proto.Size(x)
		b, err = proto.Marshal(x)
		b2, _ = proto.Marshal(x)
	}); sig != "" {
		return outcome{"encode-" + sig, stk}
	}
	if err != nil {
		return outcome{"marshal-error", err.Error()}
	}
	if size != len(b) {
		return outcome{"size!=len(marshal)", fmt.Sprintf("Size=%d len(Marshal)=%d bytes=%x", size, len(b), trb(b))}
	}
	if !ptypes.HasMap(t) && !bytes.Equal(b, b2) {
		return outcome{"non-deterministic", fmt.Sprintf("%x vs %x", trb(b), trb(b2))}
	}
	out := reflect.New(t)
	if sig, stk := core.Guard(func() { err = proto.Unmarshal(b, out.Interface()) }); sig != "" {
		return outcome{"decode-" + sig, fmt.Sprintf("Unmarshal(%x) panicked: %s", trb(b), stk)}
	}
	if err != nil {
		return outcome{"unmarshal-error", fmt.Sprintf("Unmarshal(%x): %v", trb(b), err)}
	}
	if ok, d := ptypes.EqualSign(v, out.Elem()); !ok {
		return outcome{"value-diff", fmt.Sprintf("bytes %x: %s", trb(b), d)}
	}
	// the same clauses when the message is passed by pointer (the bytes may differ: a pointer
	// asks for explicit zero fields; the statement only requires the round trip and Size)
	if v.CanAddr() {
		var bp []byte
		var ep error
		var sp int
		if sig, stk := core.Guard(func() { sp = proto.Size(v.Addr().Interface()); bp, ep = proto.Marshal(v.Addr().Interface()) }); sig != "" {
			return outcome{"by-pointer-encode-" + sig, stk}
		}
		if ep != nil {
			return outcome{"by-pointer-marshal-error", ep.Error()}
		}
		if sp != len(bp) {
			return outcome{"by-pointer-size!=len(marshal)", fmt.Sprintf("Size(&v)=%d len(Marshal(&v))=%d", sp, len(bp))}
		}
		out2 := reflect.New(t)
		if sig, stk := core.Guard(func() { err = proto.Unmarshal(bp, out2.Interface()) }); sig != "" {
			return outcome{"by-pointer-decode-" + sig, fmt.Sprintf("Unmarshal(%x) panicked: %s", trb(bp), stk)}
		}
		if err != nil {
			return outcome{"by-pointer-unmarshal-error", fmt.Sprintf("Unmarshal(Marshal(&v)=%x): %v", trb(bp), err)}
		}
		if ok, d := ptypes.EqualSign(v, out2.Elem()); !ok {
			return outcome{"by-pointer-value-diff", fmt.Sprintf("bytes %x: %s", trb(bp), d)}
		}
	}
	return
}

func trb(b []byte) []byte {
	if len(b) > 64 {
		return b[:64]
	}
	return b
}

// localize reduces a failing struct value to the single field (and nested field) that still fails.
func localize(v reflect.Value, budget *int) reflect.Value {
	if *budget <= 0 || v.Kind() != reflect.Struct || v.NumField() <= 1 {
		if v.Kind() == reflect.Struct && v.NumField() == 1 && *budget > 0 {
			// descend into a nested message when it fails on its own
			f := v.Field(0)
			for f.Kind() == reflect.Pointer && !f.IsNil() {
				f = f.Elem()
			}
			if f.Kind() == reflect.Struct && f.CanInterface() && roundTrip(addressable(f)).how != "" {
				*budget--
				return localize(addressable(f), budget)
			}
			if f.Kind() == reflect.Map {
				it := f.MapRange()
				for n := 0; it.Next() && n < 50; n++ {
					e := it.Value()
					for e.Kind() == reflect.Pointer && !e.IsNil() {
						e = e.Elem()
					}
					if e.Kind() == reflect.Struct && roundTrip(addressable(e)).how != "" {
						*budget--
						return localize(addressable(e), budget)
					}
				}
			}
			if f.Kind() == reflect.Slice && f.Type().Elem().Kind() != reflect.Uint8 {
				for i := 0; i < f.Len() && i < 50; i++ {
					e := f.Index(i)
					for e.Kind() == reflect.Pointer && !e.IsNil() {
						e = e.Elem()
					}
					if e.Kind() == reflect.Struct && roundTrip(addressable(e)).how != "" {
						*budget--
						return localize(addressable(e), budget)
					}
				}
			}
		}
		return v
	}
	t := v.Type()
	for i := 0; i < t.NumField(); i++ {
		if !t.Field(i).IsExported() {
			continue
		}
		*budget--
		sf := t.Field(i)
		sf.Offset = 0
		sf.Index = nil
		// an untagged field keeps its declaration-order number only as field 1 of the reduced struct: fine,
		// the number is not what is being localised unless it is tagged
		var rt reflect.Type
		func() {
			defer func() { recover() }()
			rt = reflect.StructOf([]reflect.StructField{sf})
		}()
		if rt == nil {
			continue
		}
		rv := reflect.New(rt).Elem()
		rv.Field(0).Set(v.Field(i))
		if roundTrip(rv).how != "" {
			return localize(rv, budget)
		}
	}
	return v
}

func addressable(v reflect.Value) reflect.Value {
	p := reflect.New(v.Type())
	p.Elem().Set(v)
	return p.Elem()
}

func show(v reflect.Value) string {
	s := fmt.Sprintf("%+v", v.Interface())
	if len(s) > 300 {
		s = s[:300] + "…"
	}
	return s
}

func check(c *core.Case, family string, v reflect.Value) bool {
	o := roundTrip(v)
	c.Count("roundtrips", 1)
	if o.how == "" {
		return true
	}
	budget := 200
	leaf := localize(v, &budget)
	lo := roundTrip(leaf)
	if lo.how == "" {
		leaf, lo = v, o
	}
	c.Violation(family+"|"+Shape(leaf.Type()), lo.how, fmt.Sprintf("%s | value %s of %s", lo.detail, show(leaf), ptypes.TypeString(leaf.Type())),
		map[string]any{"type": ptypes.TypeString(v.Type()), "leaf_type": ptypes.TypeString(leaf.Type()), "leaf_value": show(leaf)})
	return false
}

func runGenerated(c *core.Case) {
	cfg := ptypes.DefaultCfg
	cfg.BigNumbers = c.Index%4 == 0
	if c.Index%9 == 0 {
		cfg.MaxFields, cfg.MaxDepth = 14, 4
	}
	g := ptypes.New(c.Rng.Fork(1), cfg)
	t := g.Message(0)
	c.Journal("generated")
	f := &ptypes.Filler{R: c.Rng.Fork(2), Big: c.Index%50 == 0}
	for k := 0; k < 3; k++ {
		v := f.NewValue(t)
		if k > 0 && c.Index%3 == 0 {
			// history: a decode of the same type that fails half way (a truncated or corrupted
			// encoding of another value) must leave nothing behind for the round trip that follows
			poison(c, t, f.NewValue(t))
		}
		if !check(c, "generated", v) {
			break
		}
	}
	// zero value and a value with every pointer set to a zero pointee
	check(c, "generated-zero", reflect.New(t).Elem())
	feature(c, t)
	c.Distinct(core.HashString(t.String()), t.NumField() > 0)
	c.Sample(len(t.String())/80, map[string]any{"sub": "generated", "type": ptypes.TypeString(t)})
}

// poison runs Unmarshal on damaged encodings of w: cut at three places and with the last byte
// of the payload replaced; the results are ignored.
func poison(c *core.Case, t reflect.Type, w reflect.Value) {
	b, err := proto.Marshal(w.Interface())
	if err != nil || len(b) < 2 {
		return
	}
	r := c.Rng
	for k := 0; k < 4; k++ {
		d := append([]byte(nil), b...)
		switch k {
		case 0:
			d = d[:len(d)-1]
		case 1:
			d = d[:r.Range(1, len(d)-1)]
		case 2:
			d[len(d)-1] ^= 0xFF
			d = append(d, 0x80)
		default:
			d[r.Intn(len(d))] = 0xFF
		}
		core.Guard(func() { proto.Unmarshal(d, reflect.New(t).Interface()) })
		c.Count("history.failed-decodes-before-round-trip", 1)
	}
}

func feature(c *core.Case, t reflect.Type) {
	for i := 0; i < t.NumField(); i++ {
		f := t.Field(i)
		if tc := TagClass(f); tc != "" {
			c.Count("feature.tag"+tc, 1)
		}
		switch f.Type.Kind() {
		case reflect.Map:
			c.Count("feature.map", 1)
		case reflect.Slice:
			if f.Type.Elem().Kind() != reflect.Uint8 {
				c.Count("feature.repeated", 1)
			}
		case reflect.Pointer:
			c.Count("feature.pointer", 1)
		case reflect.Array:
			c.Count("feature.bytearray", 1)
		}
	}
	if t.NumField() == 1 && t.Field(0).Type.Kind() == reflect.Pointer {
		c.Count("feature.inlined-single-pointer", 1)
	}
}

// single-field matrix: every field type shape x tag variant x boundary values
var matrixTypes = func() []reflect.Type {
	base := []reflect.Type{
		reflect.TypeOf(false), reflect.TypeOf(int(0)), reflect.TypeOf(int32(0)), reflect.TypeOf(int64(0)), reflect.TypeOf(uint(0)), reflect.TypeOf(uint32(0)), reflect.TypeOf(uint64(0)),
		reflect.TypeOf(float32(0)), reflect.TypeOf(float64(0)), reflect.TypeOf(""), reflect.TypeOf([]byte(nil)), reflect.TypeOf([4]byte{}), reflect.TypeOf([16]byte{}),
		ptypes.TMsg, ptypes.TGogo, ptypes.TGogoV, ptypes.TRaw, reflect.TypeOf(struct{ A, B int32 }{}), reflect.TypeOf(struct{ P *int64 }{}),
	}
	var ts []reflect.Type
	for _, b := range base {
		ts = append(ts, b)
		if b.Kind() != reflect.Slice {
			ts = append(ts, reflect.PointerTo(b)) // pointer-to-slice fields are outside the claimed domain
		}
		if !(b.Kind() == reflect.Array) {
			ts = append(ts, reflect.SliceOf(b))
			if b.Kind() != reflect.Slice {
				ts = append(ts, reflect.MapOf(reflect.TypeOf(""), b), reflect.MapOf(reflect.TypeOf(int32(0)), b), reflect.SliceOf(reflect.PointerTo(b)))
			}
		}
		if b.Kind() == reflect.Bool || b.Kind() == reflect.Int32 || b.Kind() == reflect.String || b.Kind() == reflect.Uint64 || b.Kind() == reflect.Int64 {
			ts = append(ts, reflect.MapOf(b, reflect.TypeOf("")), reflect.MapOf(b, reflect.TypeOf(struct{ X int64 }{})))
		}
	}
	return ts
}()

func runMatrix(c *core.Case) {
	ft := matrixTypes[c.Index%len(matrixTypes)]
	variant := c.Index / len(matrixTypes)
	c.Journal("field-matrix")
	num := []int{1, 15, 16, 2047, 2048, 65535}[variant%6]
	wire := func() string {
		b := ft
		for b.Kind() == reflect.Pointer {
			b = b.Elem()
		}
		if b.Kind() == reflect.Slice && b.Elem().Kind() != reflect.Uint8 {
			b = b.Elem()
		}
		switch b.Kind() {
		case reflect.Int32:
			return []string{"varint", "zigzag32"}[variant%2]
		case reflect.Int64, reflect.Int:
			return []string{"varint", "zigzag64"}[variant%2]
		case reflect.Uint32:
			return []string{"varint", "fixed32"}[variant%2]
		case reflect.Uint64:
			return []string{"varint", "fixed64"}[variant%2]
		case reflect.Float32:
			return "fixed32"
		case reflect.Float64:
			return "fixed64"
		case reflect.Bool, reflect.Uint:
			return "varint"
		}
		return "bytes"
	}()
	sf := reflect.StructField{Name: "F", Type: ft}
	if variant%3 != 2 {
		sf.Tag = reflect.StructTag(fmt.Sprintf(`protobuf:"%s,%d,opt,name=f"`, wire, num))
	}
	var t reflect.Type
	func() {
		defer func() { recover() }()
		t = reflect.StructOf([]reflect.StructField{sf, {Name: "Z", Type: reflect.TypeOf(int32(0)), Tag: `protobuf:"varint,70000,opt,name=z"`}})
		if variant%2 == 0 {
			t = reflect.StructOf([]reflect.StructField{sf})
		}
	}()
	if t == nil {
		return
	}
	f := &ptypes.Filler{R: c.Rng, Big: true}
	for k := 0; k < 12; k++ {
		v := f.NewValue(t)
		if !check(c, "field-matrix", v) {
			break
		}
	}
	c.Distinct(core.Mix(core.HashString(ft.String()), uint64(variant)), true)
	c.Sample(0, map[string]any{"sub": "field-matrix", "field_type": ft.String(), "tag": string(sf.Tag)})
}

type bigOffset struct {
	Pad [65536 + 24]byte
	A   int64
	S   string
	P   *int32
	L   []uint32
}

type hugeOffset struct {
	A   int32
	Pad [1<<20 + 8]byte
	M   map[string]int64
	N   struct{ X, Y int64 }
	Z   bool
}

// top-level values that are not plain structs: Message implementations by value and by pointer
func runTopLevel(c *core.Case) {
	c.Journal("top-level")
	r := c.Rng
	f := &ptypes.Filler{R: r}
	for _, t := range []reflect.Type{ptypes.TMsg, ptypes.TGogo, ptypes.TGogoV, ptypes.TRaw} {
		v := f.NewValue(t)
		check(c, "top-level", v)
	}
	// fields at offsets beyond 64 KiB and 1 MiB inside their struct
	if c.Index%8 == 0 {
		for _, t := range []reflect.Type{reflect.TypeOf(bigOffset{}), reflect.TypeOf(hugeOffset{})} {
			v := f.NewValue(t)
			if !check(c, "declared|"+t.Name(), v) {
				break
			}
		}
	}
	// declared recursive and mutually recursive message types, unexported fields in between
	for _, t := range ptypes.RecLibrary {
		for k := 0; k < 3; k++ {
			v := f.NewValue(t)
			if !check(c, "declared|"+t.Name(), v) {
				break
			}
		}
	}
	c.Distinct(uint64(7+c.Index), true)
}

// emptyMessagePointer: a non-nil pointer to a struct that encodes to zero bytes cannot be told
// from a nil pointer on the wire as this package writes it (known finding empty-message-pointer).
func emptyMessagePointer(a reflect.Value) bool {
	// through a chain of non-nil pointers (*T, **T): the message at the end is what is encoded
	for a.Type().Elem().Kind() == reflect.Pointer {
		a = a.Elem()
		if a.IsNil() {
			return false
		}
	}
	if a.Type().Elem().Kind() != reflect.Struct {
		return false
	}
	return !carries(a.Elem(), 0)
}

// carries reports whether a message value has at least one field through which an explicitly
// requested zero value can be written: any scalar, string, bytes, byte array, custom message or
// map field, a non-empty repeated field, a non-nil pointer to a scalar or to a message that
// carries, or a nested message that carries.  Only messages without such a field encode to
// nothing when they are present; this is decided from the value's structure, not by asking
// the library, so a library change that drops more is still reported.
func carries(v reflect.Value, depth int) bool {
	if depth > 20 {
		return true
	}
	t := v.Type()
	for i := 0; i < t.NumField(); i++ {
		if !t.Field(i).IsExported() {
			continue
		}
		f := v.Field(i)
		ft := f.Type()
		switch {
		case ptypes.IsCustom(ft):
			return true
		}
		switch f.Kind() {
		case reflect.Slice:
			if ft.Elem().Kind() == reflect.Uint8 || f.Len() > 0 {
				return true
			}
		case reflect.Pointer:
			for f.Kind() == reflect.Pointer && !f.IsNil() {
				f = f.Elem()
			}
			if f.Kind() == reflect.Pointer {
				continue // nil somewhere along the chain
			}
			if f.Kind() != reflect.Struct || ptypes.IsCustom(f.Type()) || carries(f, depth+1) {
				return true
			}
		case reflect.Struct:
			if carries(f, depth+1) {
				return true
			}
		default:
			return true
		}
	}
	return false
}

// witnessEmptyMsgPtr re-executes the known finding without the normalisation.
func witnessEmptyMsgPtr(c *core.Case) {
	c.Journal("empty-message-pointer")
	type In struct{ P *int64 }
	type Out struct {
		A int32
		M *In
	}
	v := Out{A: 1, M: &In{}}
	b, err := proto.Marshal(v)
	var out Out
	if err == nil {
		err = proto.Unmarshal(b, &out)
	}
	if err != nil || out.M == nil {
		c.Violation("empty-message-pointer", "value-diff", fmt.Sprintf("Unmarshal(Marshal(Out{A:1, M:&In{}})) gives M=%v (bytes %x, err %v): a non-nil pointer to a message that encodes to nothing comes back nil", out.M, b, err), nil)
	}
}

func init() {
	ptypes.NilEquivalent = emptyMessagePointer
	core.Register(&core.Monitor{
		Prop:      "C03",
		Witnesses: map[string]func(*core.Case){"empty-message-pointer": witnessEmptyMsgPtr},
		Rule:      "generated (every third case with a history: four decodes of damaged encodings of another value of the type before the round trip): a message type built at run time (0-40 fields; bool/int/int32/int64/uint/uint32/uint64/float32/float64/string/[]byte/byte arrays; nested and pointer-to structs and scalars (non-nil pointees; pointer depth <= 2); repeated fields of scalars, strings, bytes, structs and non-nil struct pointers with 0,1,9,10,11,20,21,40 and occasionally thousands of elements; maps of every documented key kind to scalars, bytes, structs and struct pointers; protobuf tags with field numbers at the 15/16, 2047/2048, 16383/16384, 65535 boundaries and beyond, zigzag and fixed variants; unexported fields; Message / gogo-style custom types) x 3 boundary-biased values + the zero value: Marshal must not fail, Size == len(Marshal), Marshal deterministic and identical through a pointer for map-free types, Unmarshal(Marshal(v)) equal to v (exported fields, nil == empty, floats by == or both NaN). field-matrix: 100+ field-type shapes x 6 field numbers x tag variants x 12 values in one- and two-field messages. A failure is localised to the single (nested) field that still fails. Distinct by type string. Outside the claimed domain and not generated: pointer-to-slice/map fields, nil elements in repeated pointer fields, pointers to zero-size structs, &nil double pointers.",
		Trusted:   []string{"the custom deep-equal in gen/ptypes (nil == empty, NaN == NaN)", "hand-written Message / gogo implementations in gen/ptypes are correct wrappers"},
		Subs: []core.Sub{
			{Name: "generated", N: core.Const(30000, 1000000), Run: runGenerated},
			{Name: "field-matrix", N: func(t core.Tier) int {
				if t == core.Thorough {
					return len(matrixTypes) * 36
				}
				return len(matrixTypes) * 12
			}, Run: runMatrix},
			{Name: "top-level", N: core.Const(200, 4000), Run: runTopLevel},
			{Name: "empty-message-pointer", N: core.Const(1, 1), Run: func(c *core.Case) {
				save := ptypes.NilEquivalent
				ptypes.NilEquivalent = nil
				defer func() { ptypes.NilEquivalent = save }()
				witnessEmptyMsgPtr(c)
				c.Distinct(3, true)
			}},
		},
	})
}
