// Package c16: proto.MarshalTo honours the caller's buffer for every size.
package c16

import (
	"bytes"
	"errors"
	"fmt"
	"io"
	"reflect"

	"github.com/segmentio/encoding/proto"
	"verifharness/core"
	"verifharness/gen/ptypes"
	"verifharness/mon/c03"
)

const guard = 64

func show(v reflect.Value) string {
	s := fmt.Sprintf("%+v", v.Interface())
	if len(s) > 240 {
		s = s[:240] + "…"
	}
	return s
}

// sweep calls MarshalTo with every destination length from 0 to Size+8.
func sweep(c *core.Case, family string, v reflect.Value, byPointer bool) {
	x := v.Interface()
	if byPointer {
		x = v.Addr().Interface()
	}
	t := v.Type()
	var size int
	var ref []byte
	var rerr error
	if sig, _ := core.Guard(func() { size = proto.Size(x) }); sig != "" {
		c.Count("skipped.size-panics(C03)", 1)
		return
	}
	// Marshal is the byte reference where it works; where it fails (C03 reports that), MarshalTo
	// is still owed what the statement says about lengths and counts
	if sig, _ := core.Guard(func() { ref, rerr = proto.Marshal(x) }); sig != "" || rerr != nil {
		c.Count("marshal-fails(C03).swept-anyway", 1)
		ref = nil
	}
	if size > 700 {
		c.Count("skipped.too-large", 1)
		return
	}
	class := family + "|" + c03.Shape(t)
	hasMap := ptypes.HasMap(t)
	w := map[string]any{"type": ptypes.TypeString(t), "value": show(v), "size": size, "by_pointer": byPointer}
	for L := 0; L <= size+8; L++ {
		backing := make([]byte, L+guard)
		for i := range backing {
			backing[i] = 0xC3
		}
		b := backing[:L]
		var n int
		var err error
		if sig, stk := core.Guard(func() { n, err = proto.MarshalTo(b, x) }); sig != "" {
			c.Violation(class, sig, fmt.Sprintf("MarshalTo(len %d) of a value of Size %d panicked: %s | %s", L, size, stk, show(v)), w)
			return
		}
		c.Count("calls.MarshalTo", 1)
		for i := L; i < len(backing); i++ {
			if backing[i] != 0xC3 {
				c.Violation(class, "wrote-beyond-len", fmt.Sprintf("MarshalTo(len %d) of a value of Size %d wrote at offset %d (>= len(b)) | %s", L, size, i, show(v)), w)
				return
			}
		}
		if L < size {
			if err == nil {
				c.Violation(class, "short-buffer-accepted", fmt.Sprintf("MarshalTo(len %d) of a value of Size %d returned n=%d and no error | %s", L, size, n, show(v)), w)
				return
			}
			if !errors.Is(err, io.ErrShortBuffer) {
				c.Violation(class, "short-buffer-other-error", fmt.Sprintf("MarshalTo(len %d) of a value of Size %d failed with %v, not io.ErrShortBuffer | %s", L, size, err, show(v)), w)
				return
			}
			continue
		}
		if err != nil {
			c.Violation(class, "error-with-enough-room", fmt.Sprintf("MarshalTo(len %d) of a value of Size %d failed: %v | %s", L, size, err, show(v)), w)
			return
		}
		if n != size {
			c.Violation(class, "count!=Size", fmt.Sprintf("MarshalTo(len %d) returned %d, Size is %d | %s", L, n, size, show(v)), w)
			return
		}
		if !hasMap && ref != nil {
			if !bytes.Equal(b[:n], ref) {
				c.Violation(class, "bytes!=Marshal", fmt.Sprintf("MarshalTo(len %d) wrote %x, Marshal gives %x | %s", L, b[:n], ref, show(v)), w)
				return
			}
		} else if L == size || L == size+8 {
			out := reflect.New(t)
			if e := proto.Unmarshal(b[:n], out.Interface()); e != nil {
				c.Violation(class, "output-undecodable", fmt.Sprintf("MarshalTo(len %d) wrote %x which does not decode: %v | %s", L, b[:n], e, show(v)), w)
				return
			} else if ok, d := ptypes.EqualSign(v, out.Elem()); !ok {
				c.Violation(class, "output-decodes-differently", fmt.Sprintf("MarshalTo(len %d) wrote %x: %s | %s", L, b[:n], d, show(v)), w)
				return
			}
		}
	}
	c.Count("values", 1)
	c.Count("lengths", size+9)
}

func runGenerated(c *core.Case) {
	cfg := ptypes.DefaultCfg
	cfg.BigNumbers = c.Index%4 == 0
	cfg.MaxFields = 6
	g := ptypes.New(c.Rng.Fork(1), cfg)
	t := g.Message(0)
	c.Journal("generated")
	f := &ptypes.Filler{R: c.Rng.Fork(2)}
	v := f.NewValue(t)
	sweep(c, "generated", v, false)
	if c.Index%3 == 0 {
		sweep(c, "generated-by-pointer", v, true)
	}
	c.Distinct(core.Mix(core.HashString(t.String()), uint64(c.Index)), t.NumField() > 0)
	c.Sample(0, map[string]any{"sub": "generated", "type": ptypes.TypeString(t), "lengths": "0..Size+8"})
}

var leafTypes = []reflect.Type{
	reflect.TypeOf(false), reflect.TypeOf(int(0)), reflect.TypeOf(int32(0)), reflect.TypeOf(int64(0)), reflect.TypeOf(uint(0)), reflect.TypeOf(uint32(0)), reflect.TypeOf(uint64(0)),
	reflect.TypeOf(float32(0)), reflect.TypeOf(float64(0)), reflect.TypeOf(""), reflect.TypeOf([]byte(nil)), reflect.TypeOf([4]byte{}), reflect.TypeOf([16]byte{}),
	ptypes.TMsg, ptypes.TGogo, ptypes.TGogoV, ptypes.TRaw, reflect.TypeOf(struct{ A, B int32 }{}),
}

// top-level values of every leaf kind, in every wrapper (value, pointer field, repeated, map)
func runLeaves(c *core.Case) {
	lt := leafTypes[c.Index%len(leafTypes)]
	wrap := (c.Index / len(leafTypes)) % 6
	c.Journal("leaves")
	var t reflect.Type
	num := []int{1, 16, 2048, 70000}[c.Index%4]
	tag := reflect.StructTag(fmt.Sprintf(`protobuf:"%s,%d,opt,name=f"`, wireOf(lt), num))
	mk := func(ft reflect.Type) reflect.Type {
		var st reflect.Type
		func() {
			defer func() { recover() }()
			st = reflect.StructOf([]reflect.StructField{{Name: "F", Type: ft, Tag: tag}, {Name: "Z", Type: reflect.TypeOf(int32(0)), Tag: `protobuf:"varint,90000,opt,name=z"`}})
		}()
		return st
	}
	switch wrap {
	case 0:
		t = lt // the leaf itself as the top-level value (Message implementations, scalars are not messages: skipped below)
	case 1:
		t = mk(lt)
	case 2:
		if lt.Kind() == reflect.Slice {
			return
		}
		t = mk(reflect.PointerTo(lt))
	case 3:
		if lt.Kind() == reflect.Array {
			return
		}
		t = mk(reflect.SliceOf(lt))
	case 4:
		if lt.Kind() == reflect.Array {
			return
		}
		t = mk(reflect.MapOf(reflect.TypeOf(""), lt))
	default:
		if lt.Kind() == reflect.Array || lt.Kind() == reflect.Slice {
			return
		}
		t = mk(reflect.MapOf(reflect.TypeOf(int32(0)), reflect.PointerTo(lt)))
	}
	if t == nil {
		return
	}
	// wrap 0 also covers top-level scalars, strings, bytes and byte arrays (and pointers to them
	// through the by-pointer sweep): there no enclosing field window protects the primitive writers
	f := &ptypes.Filler{R: c.Rng}
	for k := 0; k < 6; k++ {
		v := f.NewValue(t)
		sweep(c, "leaves", v, false)
		if k == 0 {
			sweep(c, "leaves-by-pointer", v, true)
		}
	}
	c.Distinct(core.Mix(core.HashString(t.String()), uint64(wrap)), true)
	c.Sample(0, map[string]any{"sub": "leaves", "type": ptypes.TypeString(t)})
}

func wireOf(t reflect.Type) string {
	switch t.Kind() {
	case reflect.Float32:
		return "fixed32"
	case reflect.Float64:
		return "fixed64"
	case reflect.Bool, reflect.Int, reflect.Int32, reflect.Int64, reflect.Uint, reflect.Uint32, reflect.Uint64:
		return "varint"
	}
	return "bytes"
}

func init() {
	core.Register(&core.Monitor{
		Prop:    "C16",
		Rule:    "For each value (generated messages with up to 6 fields per level incl. nested, repeated, map, tagged and custom-message fields; and every leaf kind as top-level value / field / pointer field / repeated field / map value in one- and two-field messages; Size <= 700) MarshalTo is called with EVERY destination length L from 0 to Size+8; the destination is backing[:L] of an array with 64 guard bytes after it (cap includes the guard). L >= Size: no error, count == Size, bytes == Marshal(v) for map-free values (else the output must decode to v). L < Size: an error that is io.ErrShortBuffer. Always: no panic, no guard byte at or beyond len(b) changed. Also through a pointer to the message. Distinct by (type, case).",
		Trusted: []string{"guard-byte layout in the harness", "Marshal/Size of the same build as reference for the expected bytes (their correctness is C03/C12)"},
		Subs: []core.Sub{
			{Name: "generated", N: core.Const(12000, 300000), Run: runGenerated},
			{Name: "leaves", N: func(t core.Tier) int {
				if t == core.Thorough {
					return len(leafTypes) * 6 * 16
				}
				return len(leafTypes) * 6 * 4
			}, Run: runLeaves},
		},
	})
}
