package main

import (
	"fmt"

	"github.com/segmentio/encoding/proto"
)

type PetOwner struct {
	Pet *Pet
	N   int32
}
type Pet struct {
	Owner PetOwner
	S     string
	Rest  map[int32]*Pet
}

func main() {
	v := PetOwner{Pet: &Pet{Owner: PetOwner{N: 5}, S: "lo", Rest: map[int32]*Pet{3: {S: "x", Owner: PetOwner{N: 9}}}}, N: 7}
	b, err := proto.Marshal(v)
	fmt.Printf("% x %v size=%d\n", b, err, proto.Size(v))
	var out PetOwner
	err = proto.Unmarshal(b, &out)
	fmt.Printf("%v %+v %+v\n", err, out, out.Pet)
	// first use through Pet
}
