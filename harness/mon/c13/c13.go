// Package c13: thrift bytes follow the binary and compact protocol specifications.
package c13

import (
	"bytes"
	"fmt"
	"math"
	"reflect"

	"github.com/segmentio/encoding/thrift"
	"verifharness/core"
	"verifharness/gen/tspec"
	"verifharness/gen/ttypes"
)

type proto struct {
	name    string
	p       thrift.Protocol
	compact bool
	strict  bool
}

var Protocols = []proto{
	{"binary-strict", &thrift.BinaryProtocol{}, false, true},
	{"binary-nonstrict", &thrift.BinaryProtocol{NonStrict: true}, false, false},
	{"compact", &thrift.CompactProtocol{}, true, true},
}

func (p proto) encode(n tspec.Node, o tspec.Opts) []byte {
	if p.compact {
		return tspec.EncodeCompact(n, o)
	}
	return tspec.EncodeBinary(n, o)
}

func (p proto) parse(b []byte, k tspec.Kind) (tspec.Node, int, error) {
	if p.compact {
		return tspec.ParseCompact(b, k)
	}
	return tspec.ParseBinary(b, k)
}

func tr(b []byte) []byte {
	if len(b) > 80 {
		return b[:80]
	}
	return b
}

// errKind strips the numbers from a reference-reader error.
func errKind(err error) string {
	if err == nil {
		return "trailing-bytes"
	}
	out := []byte{}
	for _, ch := range []byte(err.Error()) {
		if ch >= '0' && ch <= '9' {
			continue
		}
		out = append(out, ch)
	}
	return string(out)
}

func clip(s string, n int) string {
	if len(s) > n {
		return s[:n]
	}
	return s
}

func show(v reflect.Value) string {
	s := fmt.Sprintf("%+v", v.Interface())
	if len(s) > 240 {
		s = s[:240] + "…"
	}
	return s
}

// firstDiff labels the first byte at which got deviates from want.
func firstDiff(got, want []byte, labels []string) (int, string) {
	n := len(got)
	if len(want) < n {
		n = len(want)
	}
	for i := 0; i < n; i++ {
		if got[i] != want[i] {
			return i, labels[i]
		}
	}
	if len(want) > n {
		return n, labels[n] + "|missing"
	}
	return n, "surplus-bytes"
}

func genType(c *core.Case, cfg ttypes.Cfg) (reflect.Type, bool) {
	var t reflect.Type
	sig, _ := core.Guard(func() {
		g := ttypes.New(c.Rng.Fork(1), cfg)
		t = g.Struct(0)
	})
	return t, sig == ""
}

// ---- marshal: bytes of Marshal vs the specification --------------------------------------------

func runMarshal(c *core.Case) {
	r := c.Rng
	t, ok := genType(c, ttypes.Cfg{MaxDepth: 2, MaxFields: 7, NoMaps: c.Index%2 == 0, Embedding: true, Unions: true})
	if !ok {
		c.Count("generator.panic", 1)
		return
	}
	if c.Index%8 == 7 && t.NumField() > 0 { // a bare list, set, map, string, number or pointer at the top level
		if ft := t.Field(r.Intn(t.NumField())).Type; ft.Kind() != reflect.Interface {
			t = ft
		}
	}
	root := ttypes.KindOf(t)
	f := &ttypes.Filler{R: r.Fork(2)}
	for k := 0; k < 3; k++ {
		v := f.NewValue(t)
		want := ttypes.TreeOf(v)
		marshaled := map[string][]byte{}
		for _, p := range Protocols {
			c.Journal("marshal|" + p.name)
			var b []byte
			var err error
			if sig, stk := core.Guard(func() { b, err = thrift.Marshal(p.p, v.Interface()) }); sig != "" {
				c.Violation("marshal|"+p.name, sig, fmt.Sprintf("Marshal(%s) of %s panicked: %s", p.name, ttypes.TypeString(t), stk), nil)
				return
			}
			if err != nil {
				c.Violation("marshal|"+p.name, "error", fmt.Sprintf("Marshal(%s) of %s failed: %v", p.name, show(v), err), nil)
				return
			}
			spec := p.encode(want, tspec.Opts{})
			w := map[string]any{"type": ttypes.TypeString(t), "value": show(v), "got_hex": fmt.Sprintf("%x", tr(b)), "spec_hex": fmt.Sprintf("%x", tr(spec))}
			// 1. a strict reader of the specification understands the bytes, with the same content
			got, used, perr := p.parse(b, root)
			if perr != nil || used != len(b) || tspec.Canon(got) != tspec.Canon(want) {
				off, lab := firstDiff(b, spec, tspec.Labels(want, tspec.Opts{}, p.compact))
				if perr == nil && used == len(b) {
					// well-formed but other content: name the first difference of the two renderings
					cg, cw := tspec.Canon(got), tspec.Canon(want)
					i := 0
					for i < len(cg) && i < len(cw) && cg[i] == cw[i] {
						i++
					}
					lo := i - 30
					if lo < 0 {
						lo = 0
					}
					c.Violation("marshal|"+p.name+"|content", "other-content", fmt.Sprintf("Marshal(%s) wrote %x, which reads as ...%s, the value is ...%s (%s)", p.name, tr(b), clip(cg[lo:], 90), clip(cw[lo:], 90), show(v)), w)
					break
				}
				if tspec.HasUnordered(want) { // the byte position means nothing under another iteration order
					lab = "reader:" + errKind(perr)
				}
				c.Violation("marshal|"+p.name+"|"+lab, "not-the-specified-bytes", fmt.Sprintf("Marshal(%s) wrote %x; the specification prescribes %x for %s (first difference at byte %d, a %s; specification reader: err=%v, consumed %d of %d)", p.name, tr(b), tr(spec), show(v), off, lab, perr, used, len(b)), w)
				break
			}
			// 2. byte for byte when no iteration order is involved
			if !tspec.HasUnordered(want) {
				if !bytes.Equal(b, spec) {
					off, lab := firstDiff(b, spec, tspec.Labels(want, tspec.Opts{}, p.compact))
					c.Violation("marshal|"+p.name+"|"+lab, "not-the-specified-bytes", fmt.Sprintf("Marshal(%s) wrote %x; the specification prescribes %x for %s (first difference at byte %d, a %s)", p.name, tr(b), tr(spec), show(v), off, lab), w)
					break
				}
				c.Count("marshal.byte-exact", 1)
			} else if len(b) != len(spec) {
				c.Violation("marshal|"+p.name, "length-differs", fmt.Sprintf("Marshal(%s) wrote %d bytes, the specification prescribes %d", p.name, len(b), len(spec)), w)
				break
			} else {
				c.Count("marshal.content-exact", 1)
			}
			marshaled[p.name] = b
		}
		// 3. one Encoder taken through Reset from protocol to protocol writes what Marshal wrote
		var enc *thrift.Encoder
		for i := 0; i < 4; i++ {
			p := Protocols[(k+2*i+c.Index)%3]
			mb, ok := marshaled[p.name]
			if !ok {
				break
			}
			buf := new(bytes.Buffer)
			if enc == nil {
				enc = thrift.NewEncoder(p.p.NewWriter(buf))
			} else {
				enc.Reset(p.p.NewWriter(buf))
			}
			var err error
			if sig, stk := core.Guard(func() { err = enc.Encode(v.Interface()) }); sig != "" || err != nil {
				c.Violation("marshal|reset|"+p.name, "failed:"+sig, fmt.Sprintf("an Encoder Reset to %s failed on %s: %v %s", p.name, show(v), err, stk), nil)
				break
			}
			b := buf.Bytes()
			got, used, perr := p.parse(b, root)
			if perr != nil || used != len(b) || tspec.Canon(got) != tspec.Canon(want) || (!tspec.HasUnordered(want) && !bytes.Equal(b, mb)) {
				c.Violation("marshal|reset|"+p.name, "not-the-specified-bytes", fmt.Sprintf("an Encoder Reset to a %s writer (step %d) wrote %x, Marshal wrote %x for %s (specification reader: err=%v, consumed %d of %d)", p.name, i, tr(b), tr(mb), show(v), perr, used, len(b)), nil)
				break
			}
			c.Count("marshal.reset-exact", 1)
		}
		c.Distinct(core.Mix(core.HashString(t.String()), core.HashString(tspec.Canon(want))), root != tspec.STRUCT || len(want.Fields) > 0)
		c.Sample(len(want.Fields), map[string]any{"sub": "marshal", "type": ttypes.TypeString(t), "value": show(v)})
	}
}

// ---- alternatives: every conformant spelling is accepted with the same result ------------------

func shuffleFields(r *core.Rand, n tspec.Node) tspec.Node {
	out := n
	out.Fields = append([]tspec.Field(nil), n.Fields...)
	for i := len(out.Fields) - 1; i > 0; i-- {
		j := r.Intn(i + 1)
		out.Fields[i], out.Fields[j] = out.Fields[j], out.Fields[i]
	}
	for i := range out.Fields {
		out.Fields[i].V = shuffleFields(r, out.Fields[i].V)
	}
	out.Items = append([]tspec.Node(nil), n.Items...)
	for i := range out.Items {
		out.Items[i] = shuffleFields(r, out.Items[i])
	}
	out.Pairs = append([][2]tspec.Node(nil), n.Pairs...)
	for i := range out.Pairs {
		out.Pairs[i] = [2]tspec.Node{out.Pairs[i][0], shuffleFields(r, out.Pairs[i][1])}
	}
	return out
}

func runAlternatives(c *core.Case) {
	r := c.Rng
	t, ok := genType(c, ttypes.Cfg{MaxDepth: 2, MaxFields: 7, Embedding: true, Unions: true})
	if !ok {
		return
	}
	f := &ttypes.Filler{R: r.Fork(2)}
	v := f.NewValue(t)
	want := ttypes.TreeOf(v)
	type alt struct {
		name string
		o    tspec.Opts
		n    tspec.Node
	}
	alts := []alt{
		{"canonical", tspec.Opts{}, want},
		{"fields-in-another-order", tspec.Opts{KeepFieldOrder: true}, shuffleFields(r, want)},
		{"long-field-headers", tspec.Opts{LongFieldHeaders: true}, want},
		{"long-list-headers", tspec.Opts{LongListHeaders: true}, want},
		{"bool-element-type-1", tspec.Opts{BoolElemType1: true}, want},
		{"all-long-forms-shuffled", tspec.Opts{LongFieldHeaders: true, LongListHeaders: true, BoolElemType1: true, KeepFieldOrder: true}, shuffleFields(r, want)},
	}
	for _, p := range Protocols {
		for ai, a := range alts {
			if !p.compact && ai >= 2 {
				continue // the binary protocol has one spelling per field order
			}
			enc := p.encode(a.n, a.o)
			cls := "accept|" + p.name + "|" + a.name
			c.Journal(cls)
			out := reflect.New(t)
			var err error
			if sig, stk := core.Guard(func() { err = thrift.Unmarshal(p.p, append([]byte(nil), enc...), out.Interface()) }); sig != "" {
				c.Violation(cls, sig, fmt.Sprintf("Unmarshal(%s) of the conformant encoding %x panicked: %s", p.name, tr(enc), stk), nil)
				continue
			}
			w := map[string]any{"type": ttypes.TypeString(t), "value": show(v), "input_hex": fmt.Sprintf("%x", tr(enc))}
			if err != nil {
				c.Violation(cls, "rejected", fmt.Sprintf("Unmarshal(%s) rejects the conformant encoding %x of %s: %v", p.name, tr(enc), show(v), err), w)
				continue
			}
			if ok, d := ttypes.Equal(v, out.Elem()); !ok {
				c.Violation(cls, "value-diff", fmt.Sprintf("%s | conformant encoding %x | want %s | got %s", d, tr(enc), show(v), show(out.Elem())), w)
				continue
			}
			c.Count("accepted."+a.name, 1)
			// the same bytes through a Decoder in strict mode: every field is declared and of the
			// declared type, so strictness has nothing to object to
			sout := reflect.New(t)
			dec := thrift.NewDecoder(p.p.NewReader(bytes.NewReader(append([]byte(nil), enc...))))
			dec.SetStrict(true)
			if sig, stk := core.Guard(func() { err = dec.Decode(sout.Interface()) }); sig != "" {
				c.Violation(cls+"|strict", sig, fmt.Sprintf("strict Decode(%s) of the conformant encoding %x panicked: %s", p.name, tr(enc), stk), nil)
				continue
			}
			if err != nil {
				c.Violation(cls+"|strict", "rejected", fmt.Sprintf("a strict Decoder (%s) rejects the conformant encoding %x of %s: %v", p.name, tr(enc), show(v), err), w)
				continue
			}
			if ok, d := ttypes.Equal(v, sout.Elem()); !ok {
				c.Violation(cls+"|strict", "value-diff", fmt.Sprintf("%s | strict Decoder, conformant encoding %x | want %s | got %s", d, tr(enc), show(v), show(sout.Elem())), w)
				continue
			}
			c.Count("accepted-strict."+a.name, 1)
			// a reader that declares none of the fields skips all of them, whatever their spelling
			var none struct {
				X int64 `thrift:"32001"`
			}
			if sig, stk := core.Guard(func() { err = thrift.Unmarshal(p.p, append([]byte(nil), enc...), &none) }); sig != "" || err != nil {
				c.Violation(cls+"|skipped", "rejected:"+sig, fmt.Sprintf("Unmarshal(%s) into a struct that declares none of the fields fails on the conformant encoding %x of %s: %v %s", p.name, tr(enc), show(v), err, stk), w)
				continue
			}
			c.Count("skipped."+a.name, 1)
		}
	}
	c.Distinct(core.Mix(core.HashString(t.String()), core.HashString(tspec.Canon(want))), len(want.Fields) > 0)
}

// ---- writer calls: each Writer method against the specification, and back through the Reader ----

var ttypeOf = map[tspec.Kind]thrift.Type{tspec.BOOL: thrift.BOOL, tspec.I8: thrift.I8, tspec.I16: thrift.I16, tspec.I32: thrift.I32, tspec.I64: thrift.I64, tspec.DOUBLE: thrift.DOUBLE, tspec.BINARY: thrift.BINARY, tspec.LIST: thrift.LIST, tspec.SET: thrift.SET, tspec.MAP: thrift.MAP, tspec.STRUCT: thrift.STRUCT}

func specU(v uint64) []byte {
	var b []byte
	for v >= 0x80 {
		b = append(b, byte(v)|0x80)
		v >>= 7
	}
	return append(b, byte(v))
}

type call struct {
	desc  string
	label string
	write func(w thrift.Writer) error
	spec  func(p proto) []byte
	read  func(r thrift.Reader) (any, error)
	want  any
}

func randKind(r *core.Rand) tspec.Kind { return tspec.Kind(r.Range(1, 11)) }

func genCall(r *core.Rand, compact bool) call {
	enc := func(n tspec.Node) func(p proto) []byte {
		return func(p proto) []byte { return p.encode(n, tspec.Opts{}) }
	}
	switch r.Intn(13) {
	case 0:
		v := r.Bool()
		return call{fmt.Sprintf("WriteBool(%v)", v), "bool", func(w thrift.Writer) error { return w.WriteBool(v) }, enc(tspec.Bool(v)), func(rd thrift.Reader) (any, error) { return rd.ReadBool() }, v}
	case 1:
		v := int8(r.Int64())
		return call{fmt.Sprintf("WriteInt8(%d)", v), "i8", func(w thrift.Writer) error { return w.WriteInt8(v) }, enc(tspec.Int(tspec.I8, int64(v))), func(rd thrift.Reader) (any, error) { return rd.ReadInt8() }, v}
	case 2:
		v := int16(r.Int64())
		return call{fmt.Sprintf("WriteInt16(%d)", v), "i16", func(w thrift.Writer) error { return w.WriteInt16(v) }, enc(tspec.Int(tspec.I16, int64(v))), func(rd thrift.Reader) (any, error) { return rd.ReadInt16() }, v}
	case 3:
		v := int32(r.Int64())
		return call{fmt.Sprintf("WriteInt32(%d)", v), "i32", func(w thrift.Writer) error { return w.WriteInt32(v) }, enc(tspec.Int(tspec.I32, int64(v))), func(rd thrift.Reader) (any, error) { return rd.ReadInt32() }, v}
	case 4:
		v := r.Int64()
		return call{fmt.Sprintf("WriteInt64(%d)", v), "i64", func(w thrift.Writer) error { return w.WriteInt64(v) }, enc(tspec.Int(tspec.I64, v)), func(rd thrift.Reader) (any, error) { return rd.ReadInt64() }, v}
	case 5:
		v := r.Float(false)
		return call{fmt.Sprintf("WriteFloat64(%v)", v), "double", func(w thrift.Writer) error { return w.WriteFloat64(v) }, enc(tspec.Double(v)), func(rd thrift.Reader) (any, error) { return rd.ReadFloat64() }, v}
	case 6:
		v := r.Bytes(r.Intn(200))
		return call{fmt.Sprintf("WriteBytes(%d bytes)", len(v)), "binary", func(w thrift.Writer) error { return w.WriteBytes(v) }, enc(tspec.Binary(v)), func(rd thrift.Reader) (any, error) { return rd.ReadBytes() }, v}
	case 7:
		v := r.String(40)
		return call{fmt.Sprintf("WriteString(%q)", v), "binary", func(w thrift.Writer) error { return w.WriteString(v) }, enc(tspec.Binary([]byte(v))), func(rd thrift.Reader) (any, error) { return rd.ReadString() }, v}
	case 8:
		n := []int{0, 1, 127, 128, 16383, 16384, 1 << 20, math.MaxInt32}[r.Intn(8)]
		return call{fmt.Sprintf("WriteLength(%d)", n), "length", func(w thrift.Writer) error { return w.WriteLength(n) }, func(p proto) []byte {
			if p.compact {
				return specU(uint64(n))
			}
			return tspec.EncodeBinary(tspec.Int(tspec.I32, int64(n)), tspec.Opts{})
		}, func(rd thrift.Reader) (any, error) { return rd.ReadLength() }, n}
	case 9: // field header: stop, delta short form, absolute id
		k := randKind(r)
		typ := ttypeOf[k]
		if k == tspec.BOOL && compact && r.Bool() {
			typ = thrift.TRUE
		}
		id := int16([]int{1, 2, 15, 16, 17, 100, 255, 256, 16383, 32767}[r.Intn(10)])
		delta := compact && r.Bool()
		if delta {
			id = int16(r.Range(1, 15))
		}
		fld := thrift.Field{ID: id, Type: typ, Delta: delta}
		if r.Chance(1, 6) {
			fld = thrift.Field{Type: thrift.STOP}
		}
		return call{fmt.Sprintf("WriteField(%#v)", fld), "field-header", func(w thrift.Writer) error { return w.WriteField(fld) }, func(p proto) []byte {
			if fld.Type == thrift.STOP {
				return []byte{0}
			}
			if p.compact {
				code := byte(fld.Type) // the compact codes are the values of thrift.Type
				if fld.Delta {
					return []byte{byte(fld.ID)<<4 | code}
				}
				return append([]byte{code}, tspec.EncodeCompact(tspec.Int(tspec.I16, int64(fld.ID)), tspec.Opts{})...)
			}
			// binary: code of the kind, then the id
			hdr := tspec.EncodeBinary(tspec.Node{K: tspec.STRUCT, Fields: []tspec.Field{{ID: fld.ID, V: zeroOf(k)}}}, tspec.Opts{})
			return hdr[:3]
		}, func(rd thrift.Reader) (any, error) { return rd.ReadField() }, fld}
	case 10: // list / set header
		k := randKind(r)
		size := int32([]int{0, 1, 14, 15, 16, 127, 128, 100000}[r.Intn(8)])
		l := thrift.List{Size: size, Type: ttypeOf[k]}
		set := r.Bool()
		spec := func(p proto) []byte {
			if p.compact {
				code := byte(l.Type)
				if size < 15 {
					return []byte{byte(size)<<4 | code}
				}
				return append([]byte{0xF0 | code}, specU(uint64(size))...)
			}
			return append([]byte{tspec.EncodeBinary(tspec.Node{K: tspec.LIST, Elem: k}, tspec.Opts{})[0]}, tspec.EncodeBinary(tspec.Int(tspec.I32, int64(size)), tspec.Opts{})...)
		}
		if set {
			return call{fmt.Sprintf("WriteSet(%#v)", thrift.Set(l)), "list-header", func(w thrift.Writer) error { return w.WriteSet(thrift.Set(l)) }, spec, func(rd thrift.Reader) (any, error) { return rd.ReadSet() }, thrift.Set(l)}
		}
		return call{fmt.Sprintf("WriteList(%#v)", l), "list-header", func(w thrift.Writer) error { return w.WriteList(l) }, spec, func(rd thrift.Reader) (any, error) { return rd.ReadList() }, l}
	case 11: // map header
		kk, vk := randKind(r), randKind(r)
		size := int32([]int{0, 1, 14, 15, 127, 128, 100000}[r.Intn(7)])
		m := thrift.Map{Size: size, Key: ttypeOf[kk], Value: ttypeOf[vk]}
		want := m
		if size == 0 && compact {
			want = thrift.Map{} // the compact empty map is one byte and carries no types
		}
		return call{fmt.Sprintf("WriteMap(%#v)", m), "map-header", func(w thrift.Writer) error { return w.WriteMap(m) }, func(p proto) []byte {
			if p.compact {
				if size == 0 {
					return []byte{0}
				}
				return append(specU(uint64(size)), byte(m.Key)<<4|byte(m.Value))
			}
			h := tspec.EncodeBinary(tspec.Node{K: tspec.MAP, Key: kk, Val: vk}, tspec.Opts{})
			return append(h[:2:2], tspec.EncodeBinary(tspec.Int(tspec.I32, int64(size)), tspec.Opts{})...)
		}, func(rd thrift.Reader) (any, error) { return rd.ReadMap() }, want}
	default: // message header
		m := thrift.Message{Type: thrift.MessageType(r.Intn(4)), Name: r.ASCIIString(0, 20), SeqID: int32(r.Int64())}
		if r.Bool() {
			m.SeqID = int32(r.Intn(1 << 20))
		}
		return call{fmt.Sprintf("WriteMessage(%#v)", m), "message-header", func(w thrift.Writer) error { return w.WriteMessage(m) }, func(p proto) []byte {
			if p.compact {
				return tspec.CompactMessage(int(m.Type)+1, m.Name, m.SeqID)
			}
			return tspec.BinaryMessage(p.strict, int(m.Type)+1, m.Name, m.SeqID) // on the wire Call=1 .. Oneway=4
		}, func(rd thrift.Reader) (any, error) { return rd.ReadMessage() }, m}
	}
}

func zeroOf(k tspec.Kind) tspec.Node {
	n := tspec.Node{K: k}
	switch k {
	case tspec.LIST, tspec.SET:
		n.Elem = tspec.I8
	case tspec.MAP:
		n.Key, n.Val = tspec.I8, tspec.I8
	}
	return n
}

func runWriterCalls(c *core.Case) {
	r := c.Rng
	p := Protocols[c.Index%3]
	n := r.Range(1, 12)
	calls := make([]call, n)
	var desc []string
	for i := range calls {
		calls[i] = genCall(r, p.compact)
		desc = append(desc, calls[i].desc)
	}
	c.Journal("writer|" + p.name)
	buf := new(bytes.Buffer)
	w := p.p.NewWriter(buf)
	var bounds []int
	for i, cl := range calls {
		before := buf.Len()
		var err error
		if sig, stk := core.Guard(func() { err = cl.write(w) }); sig != "" {
			c.Violation("writer|"+p.name+"|"+cl.label, sig, fmt.Sprintf("%s panicked: %s", cl.desc, stk), nil)
			return
		}
		if err != nil {
			c.Violation("writer|"+p.name+"|"+cl.label, "error", fmt.Sprintf("%s failed: %v", cl.desc, err), nil)
			return
		}
		got := buf.Bytes()[before:]
		want := cl.spec(p)
		if !bytes.Equal(got, want) {
			c.Violation("writer|"+p.name+"|"+cl.label, "not-the-specified-bytes", fmt.Sprintf("%s (%s, call %d of the sequence) wrote %x; the specification prescribes %x", cl.desc, p.name, i, tr(got), tr(want)), map[string]any{"call": cl.desc, "protocol": p.name})
			return
		}
		bounds = append(bounds, buf.Len())
	}
	// the Reader inverts the sequence
	c.Journal("reader|" + p.name)
	all := append([]byte(nil), buf.Bytes()...)
	br := bytes.NewReader(all)
	rd := p.p.NewReader(br)
	for i, cl := range calls {
		var got any
		var err error
		if sig, stk := core.Guard(func() { got, err = cl.read(rd) }); sig != "" {
			c.Violation("reader|"+p.name+"|"+cl.label, sig, fmt.Sprintf("reading back %s panicked: %s", cl.desc, stk), nil)
			return
		}
		if err != nil {
			c.Violation("reader|"+p.name+"|"+cl.label, "error", fmt.Sprintf("reading back %s (bytes %x) failed: %v", cl.desc, tr(cl.spec(p)), err), map[string]any{"call": cl.desc, "protocol": p.name})
			return
		}
		if !sameValue(got, cl.want) {
			c.Violation("reader|"+p.name+"|"+cl.label, "value-diff", fmt.Sprintf("reading back %s gives %#v", cl.desc, got), map[string]any{"call": cl.desc, "protocol": p.name})
			return
		}
		if consumed := len(all) - br.Len(); consumed != bounds[i] {
			c.Violation("reader|"+p.name+"|"+cl.label, "consumed-differs", fmt.Sprintf("reading back %s consumed up to offset %d, the value ends at %d", cl.desc, consumed, bounds[i]), nil)
			return
		}
	}
	c.Count("writer-calls", n)
	c.Distinct(core.HashString(p.name+fmt.Sprint(desc)), true)
	c.Sample(n, map[string]any{"sub": "writer-calls", "protocol": p.name, "calls": desc})
}

func sameValue(a, b any) bool {
	switch x := a.(type) {
	case float64:
		y, _ := b.(float64)
		return math.Float64bits(x) == math.Float64bits(y)
	case []byte:
		y, _ := b.([]byte)
		return bytes.Equal(x, y)
	}
	return reflect.DeepEqual(a, b)
}

// ---- messages: every conformant header spelling is read ----------------------------------------

func runMessages(c *core.Case) {
	r := c.Rng
	typ := r.Intn(4) + 1 // wire codes: Call=1, Reply=2, Exception=3, Oneway=4
	name := r.ASCIIString(0, 30)
	seq := int32(r.Intn(1 << 30))
	if r.Chance(1, 4) {
		seq = int32(r.Int64())
	}
	want := thrift.Message{Type: []thrift.MessageType{thrift.Call, thrift.Reply, thrift.Exception, thrift.Oneway}[typ-1], Name: name, SeqID: seq}
	type form struct {
		name string
		p    thrift.Protocol
		b    []byte
	}
	forms := []form{
		{"binary-strict-reader|strict-header", &thrift.BinaryProtocol{}, tspec.BinaryMessage(true, typ, name, seq)},
		{"binary-strict-reader|nonstrict-header", &thrift.BinaryProtocol{}, tspec.BinaryMessage(false, typ, name, seq)},
		{"binary-nonstrict-reader|strict-header", &thrift.BinaryProtocol{NonStrict: true}, tspec.BinaryMessage(true, typ, name, seq)},
		{"binary-nonstrict-reader|nonstrict-header", &thrift.BinaryProtocol{NonStrict: true}, tspec.BinaryMessage(false, typ, name, seq)},
		{"compact", &thrift.CompactProtocol{}, tspec.CompactMessage(typ, name, seq)},
	}
	for _, f := range forms {
		c.Journal("message|" + f.name)
		br := bytes.NewReader(f.b)
		var got thrift.Message
		var err error
		if sig, stk := core.Guard(func() { got, err = f.p.NewReader(br).ReadMessage() }); sig != "" {
			c.Violation("message|"+f.name, sig, fmt.Sprintf("ReadMessage(%x) panicked: %s", tr(f.b), stk), nil)
			continue
		}
		if err != nil || got != want || br.Len() != 0 {
			c.Violation("message|"+f.name, "value-diff", fmt.Sprintf("ReadMessage of the conformant header %x gives %#v, err=%v, %d bytes left; want %#v", tr(f.b), got, err, br.Len(), want), map[string]any{"header_hex": fmt.Sprintf("%x", f.b)})
			continue
		}
		c.Count("messages.read", 1)
	}
	c.Distinct(core.HashString(fmt.Sprint(want)), true)
}

func init() {
	core.Register(&core.Monitor{
		Prop:    "C13",
		Rule:    "marshal: struct types built at run time (0-70 fields, ids in seven layouts incl. gaps > 15 and ranges > 64, required/optional/enum, every supported field type incl. nested and pointer-to structs, lists, sets, maps) x 3 values x {binary strict, binary non-strict, compact}: the bytes of Marshal must be understood by a strict reader written from the two specification documents, with exactly the logical content of the value (field ids, type codes, values; sets/maps as multisets), and be byte-identical to the reference encoder when no set/map has more than one entry (same length otherwise); one Encoder taken through Reset across the three protocols must write the same bytes. A difference is classified by the construct at the first differing byte. alternatives: every conformant spelling of the same content (fields in another order; compact: long field headers, long list headers, BOOL element type 1, all at once) must be accepted by Unmarshal, and by a Decoder in strict mode, with the same value, and skipped as a whole by a reader that declares none of the fields. writer-calls: sequences of 1-12 Writer calls (every method; field headers as stop / delta / absolute; list, set, map headers around the 14/15 boundary; message headers) must write the specified bytes call by call, and the Reader must return the same values and consume exactly those bytes. messages: strict and non-strict binary headers are read by both binary readers, the compact header by the compact reader.",
		Trusted: []string{"harness/gen/tspec: encoders and strict parsers transcribed from thrift-binary-protocol.md and thrift-compact-protocol.md (type codes, endianness, zig-zag varints, header forms); no other Thrift implementation is available offline", "harness/gen/ttypes.TreeOf: the documented Go-to-thrift mapping (TypeOf, struct tags, zero/nil omission)"},
		Subs: []core.Sub{
			{Name: "marshal", N: core.Const(8000, 300000), Run: runMarshal},
			{Name: "alternatives", N: core.Const(6000, 200000), Run: runAlternatives},
			{Name: "writer-calls", N: core.Const(9000, 300000), Run: runWriterCalls},
			{Name: "messages", N: core.Const(2000, 50000), Run: runMessages},
		},
	})
}
