// Package c15: json.Append is oblivious to the destination's length and capacity.
package c15

import (
	"bytes"
	"fmt"
	"reflect"
	"strings"

	"github.com/segmentio/encoding/json"
	"verifharness/core"
	"verifharness/gen/jtypes"
)

const guard = 64

var prefixLens = []int{0, 1, 7, 8, 9, 63, 4095, 4096}

type layout struct{ p, c int }

// everyCapacity: every spare capacity from 0 to n+2 for two prefix lengths.
func everyCapacity(n int) []layout {
	var ls []layout
	for _, p := range []int{0, 3} {
		for c := 0; c <= n+2; c++ {
			ls = append(ls, layout{p, c})
		}
	}
	return ls
}

var sweepAll = false

func layouts(n int) []layout {
	if sweepAll && n <= 400 {
		return everyCapacity(n)
	}
	var ls []layout
	for _, p := range prefixLens {
		for _, c := range []int{0, 1, n - 1, n, n + 1, 2 * n, 65536} {
			if c < 0 {
				c = 0
			}
			ls = append(ls, layout{p, c})
		}
	}
	return ls
}

// arena builds [guard][prefix p][spare c][guard] and returns the destination slice.
func arena(l layout) (backing, dst []byte) {
	backing = make([]byte, guard+l.p+l.c+guard)
	for i := range backing {
		switch {
		case i < guard || i >= guard+l.p+l.c:
			backing[i] = 0xA5
		case i < guard+l.p:
			backing[i] = byte('a' + i%23)
		default:
			backing[i] = 0xEE
		}
	}
	// the destination ends like a fragment of JSON text: nothing that is appended may look back
	// at, or rewrite, what is already there
	tail := prefixTails[(l.p*31+l.c*7)%len(prefixTails)]
	if l.p >= len(tail) {
		copy(backing[guard+l.p-len(tail):guard+l.p], tail)
	}
	return backing, backing[guard : guard+l.p : guard+l.p+l.c]
}

var prefixTails = []string{"e-0", "e+0", "1e-0", "\\", "\"", "\\u00", "tru", "-", ".", "0", "\\\"", ",", ":", "[", "{", "nul", "e-09", "E-0", "\u00e9"[:2]}

func checkArena(c *core.Case, class, what string, l layout, backing, res []byte, detail func() string) bool {
	ok := true
	orig := make([]byte, guard+l.p) // what the destination held before the call
	for i := guard; i < guard+l.p; i++ {
		orig[i] = byte('a' + i%23)
	}
	if tail := prefixTails[(l.p*31+l.c*7)%len(prefixTails)]; l.p >= len(tail) {
		copy(orig[guard+l.p-len(tail):], tail)
	}
	for i := 0; i < guard; i++ {
		if backing[i] != 0xA5 || backing[len(backing)-1-i] != 0xA5 {
			c.Violation(class, "guard-overwritten", fmt.Sprintf("%s: a guard byte outside the destination's capacity changed (prefix %d, spare %d) %s", what, l.p, l.c, detail()), map[string]any{"prefix": l.p, "spare": l.c})
			ok = false
			break
		}
	}
	for i := 0; i < l.p; i++ {
		if backing[guard+i] != orig[guard+i] {
			c.Violation(class, "prefix-overwritten", fmt.Sprintf("%s: byte %d of the destination below len(b) changed (prefix %d, spare %d) %s", what, i, l.p, l.c, detail()), map[string]any{"prefix": l.p, "spare": l.c})
			ok = false
			break
		}
	}
	if len(res) < l.p {
		c.Violation(class, "result-shorter-than-prefix", fmt.Sprintf("%s: result has %d bytes, destination had %d (spare %d) %s", what, len(res), l.p, l.c, detail()), map[string]any{"prefix": l.p, "spare": l.c})
		return false
	}
	for i := 0; i < l.p; i++ {
		if res[i] != orig[guard+i] {
			c.Violation(class, "result-prefix-diff", fmt.Sprintf("%s: result does not start with the destination's bytes (first difference at %d; prefix %d, spare %d) %s", what, i, l.p, l.c, detail()), map[string]any{"prefix": l.p, "spare": l.c})
			return false
		}
	}
	return ok
}

var flagSets = []json.AppendFlags{json.EscapeHTML | json.SortMapKeys, json.SortMapKeys, json.SortMapKeys | json.TrustRawMessage | json.EscapeHTML, json.SortMapKeys | json.TrustRawMessage}

func show(x any) string {
	s := fmt.Sprintf("%#v", x)
	if len(s) > 300 {
		s = s[:300] + "…"
	}
	return s
}

func checkAppend(c *core.Case, class string, x any, flags json.AppendFlags) {
	var ref []byte
	var refErr error
	if sig, stk := core.Guard(func() { ref, refErr = json.Append(nil, x, flags) }); sig != "" {
		c.Violation(class, sig, fmt.Sprintf("Append(nil, %s, %d) panicked: %s", show(x), flags, stk), nil)
		return
	}
	if refErr != nil {
		c.Count("values.error", 1)
	}
	n := len(ref)
	for _, l := range layouts(n) {
		backing, dst := arena(l)
		var res []byte
		var err error
		detail := func() string {
			return fmt.Sprintf("| value %s flags=%d | Append(nil)=%q err=%v | got %q err=%v", show(x), flags, tr(ref), refErr, tr(res[min(l.p, len(res)):]), err)
		}
		if sig, stk := core.Guard(func() { res, err = json.Append(dst, x, flags) }); sig != "" {
			c.Violation(class, sig, fmt.Sprintf("Append with prefix %d spare %d panicked: %s %s", l.p, l.c, stk, detail()), map[string]any{"prefix": l.p, "spare": l.c})
			return
		}
		c.Count("appends", 1)
		if !checkArena(c, class, "Append", l, backing, res, detail) {
			return
		}
		if (err == nil) != (refErr == nil) {
			c.Violation(class, "error-depends-on-destination", fmt.Sprintf("Append with prefix %d spare %d: err=%v, with nil destination err=%v %s", l.p, l.c, err, refErr, detail()), map[string]any{"prefix": l.p, "spare": l.c})
			return
		}
		if err == nil && !bytes.Equal(res[l.p:], ref) {
			c.Violation(class, "suffix-diff", fmt.Sprintf("Append with prefix %d spare %d (needed %d) appended different bytes than with a nil destination %s", l.p, l.c, n, detail()), map[string]any{"prefix": l.p, "spare": l.c, "needed": n})
			return
		}
	}
}

func tr(b []byte) string {
	if len(b) > 160 {
		return string(b[:160]) + "…"
	}
	return string(b)
}

func runValues(c *core.Case) {
	cfg := jtypes.DefaultCfg
	cfg.ErrLeaves = c.Index%2 == 0
	cfg.MaxDepth = 3
	g := jtypes.New(c.Rng.Fork(1), cfg)
	var t reflect.Type
	switch c.Index % 6 {
	case 0: // []byte heavy (base64 growth arithmetic)
		t = reflect.StructOf([]reflect.StructField{{Name: "B", Type: jtypes.TBytes}, {Name: "S", Type: reflect.TypeOf("")}, {Name: "C", Type: reflect.SliceOf(jtypes.TBytes)}})
	case 1: // ,string fields (encode then re-quote in place)
		t = reflect.TypeOf(jtypes.StrOpt{})
	case 2:
		t = jtypes.Library[c.Rng.Intn(len(jtypes.Library))]
	default:
		t = g.Type(0)
	}
	c.Journal("values")
	f := &jtypes.Filler{R: c.Rng.Fork(2), NoNaN: c.Index%3 != 0, RawValid: true, MaxLen: []int{6, 6, 40, 300}[c.Index%4]}
	v := f.NewValue(t)
	x, ok := iface(v)
	if !ok {
		return
	}
	fl := flagSets[c.Index%len(flagSets)]
	checkAppend(c, "values", x, fl)
	if v.CanAddr() {
		checkAppend(c, "values", v.Addr().Interface(), flagSets[(c.Index+1)%len(flagSets)])
	}
	c.Distinct(core.Mix(core.HashString(t.String()), uint64(c.Index)), true)
	c.Sample(0, map[string]any{"sub": "values", "type": jtypes.TypeString(t), "flags": uint32(fl), "layouts": len(prefixLens) * 7})
}

// capacity-sweep: small values, every spare capacity (a growth decision can go wrong at any byte of the output)
func runCapSweep(c *core.Case) {
	sweepAll = true
	defer func() { sweepAll = false }()
	runValues(c)
}

func iface(v reflect.Value) (x any, ok bool) {
	defer func() {
		if recover() != nil {
			ok = false
		}
	}()
	return v.Interface(), true
}

// error-producing values nested at various depths (rollback paths)
type rbInner struct {
	A string
	B float64
	C chan int `json:"c,omitempty"`
}
type rbOuter struct {
	P  string
	In []rbInner
	M  map[string]rbInner
	E  *jtypes.Emb
	W  jtypes.WEmbPtr
	Q  string
}

func runRollback(c *core.Case) {
	c.Journal("rollback")
	r := c.Rng
	bad := func() rbInner {
		switch r.Intn(3) {
		case 0:
			return rbInner{A: r.String(20), B: core.Pick(r, []float64{nan(), inf()})}
		case 1:
			return rbInner{A: r.String(20), C: make(chan int)}
		default:
			return rbInner{A: r.String(20), B: 1}
		}
	}
	o := rbOuter{P: r.String(30), Q: r.String(10), M: map[string]rbInner{}}
	for i := r.Intn(4); i >= 0; i-- {
		o.In = append(o.In, bad())
	}
	for i := r.Intn(3); i > 0; i-- {
		o.M[r.ASCIIString(1, 5)] = bad()
	}
	if r.Bool() {
		o.E = &jtypes.Emb{E1: 1, E2: r.String(5)}
	}
	if r.Bool() {
		o.W.Emb = &jtypes.Emb{E2: r.String(5)}
	}
	var x any = o
	switch r.Intn(4) {
	case 0:
		x = &o
	case 1:
		x = []any{1, "a", o, map[string]any{"k": o}}
	case 2:
		x = map[string]any{"a": map[string]any{"b": o.In}, "z": [2]rbOuter{o, o}}
	}
	checkAppend(c, "rollback", x, flagSets[r.Intn(2)])
	c.Distinct(core.HashString(fmt.Sprintf("%#v", o)), true)
	c.Sample(0, map[string]any{"sub": "rollback", "value": show(x)})
}

func nan() float64 { var z float64; return z / z }
func inf() float64 { var z float64; return 1 / z }

// AppendEscape / AppendUnescape
func runEscape(c *core.Case) {
	c.Journal("escape")
	r := c.Rng
	s := r.String(core.Pick(r, []int{0, 5, 8, 20, 100, 5000}))
	if r.Chance(1, 4) {
		s = string(r.Bytes(r.Intn(64)))
	}
	for _, fl := range []json.AppendFlags{json.EscapeHTML, 0} {
		ref := json.AppendEscape(nil, s, fl)
		for _, l := range layouts(len(ref)) {
			backing, dst := arena(l)
			var res []byte
			if sig, stk := core.Guard(func() { res = json.AppendEscape(dst, s, fl) }); sig != "" {
				c.Violation("AppendEscape", sig, stk, map[string]any{"string": s})
				return
			}
			d := func() string { return fmt.Sprintf("| AppendEscape(%q, %d)", s, fl) }
			if !checkArena(c, "AppendEscape", "AppendEscape", l, backing, res, d) {
				return
			}
			if !bytes.Equal(res[l.p:], ref) {
				c.Violation("AppendEscape", "suffix-diff", fmt.Sprintf("prefix %d spare %d: %q vs %q", l.p, l.c, tr(res[l.p:]), tr(ref)), map[string]any{"string": s})
				return
			}
		}
	}
	// unescape: a quoted JSON string
	q := json.AppendEscape(nil, s, 0)
	if r.Chance(1, 3) {
		q = []byte(strings.ReplaceAll(string(q), "a", `a`))
	}
	for _, fl := range []json.ParseFlags{0, json.ZeroCopy} {
		in := append([]byte(nil), q...)
		ref := json.AppendUnescape(nil, in, fl)
		for _, l := range layouts(len(ref)) {
			backing, dst := arena(l)
			var res []byte
			if sig, stk := core.Guard(func() { res = json.AppendUnescape(dst, in, fl) }); sig != "" {
				c.Violation("AppendUnescape", sig, stk, map[string]any{"input": string(q)})
				return
			}
			d := func() string { return fmt.Sprintf("| AppendUnescape(%q, %d)", q, fl) }
			if !checkArena(c, "AppendUnescape", "AppendUnescape", l, backing, res, d) {
				return
			}
			if !bytes.Equal(res[l.p:], ref) {
				c.Violation("AppendUnescape", "suffix-diff", fmt.Sprintf("prefix %d spare %d: %q vs %q", l.p, l.c, tr(res[l.p:]), tr(ref)), map[string]any{"input": string(q)})
				return
			}
			if !bytes.Equal(in, q) {
				c.Violation("AppendUnescape", "input-modified", fmt.Sprintf("input %q became %q", q, in), nil)
				return
			}
		}
	}
	c.Count("escape.strings", 1)
	c.Distinct(core.HashString("e"+s), len(s) > 0)
}

func min(a, b int) int {
	if a < b {
		return a
	}
	return b
}

func init() {
	core.Register(&core.Monitor{
		Prop:    "C15",
		Rule:    "values: a generated / library value (weighted to []byte fields, ',string' fields, embedded nil pointers, error-producing leaves) and a flag set (EscapeHTML, SortMapKeys, TrustRawMessage combinations; SortMapKeys always on so the output is deterministic) are appended to 56 destination layouts [guard 64][prefix p][spare c][guard 64] (the prefix ends in one of 19 JSON-looking fragments such as e-0, a backslash, an open quote, tru) with p in {0,1,7,8,9,63,4095,4096} and c in {0,1,n-1,n,n+1,2n,64 KiB}, n = len(Append(nil,v,f)); after each call: result begins with the prefix, the rest equals Append(nil,v,f), err==nil iff it is for the nil destination, the prefix region and both guards of the backing array are unchanged. capacity-sweep: the same values (encoded size <= 400) with EVERY spare capacity from 0 to n+2 at prefix 0 and 3. rollback: values with NaN/Inf/chan nested in slices, maps, arrays, interfaces and next to embedded nil pointers. escape: AppendEscape / AppendUnescape on the same layouts. Distinct by (type, case).",
		Trusted: []string{"canary layout in the harness; Append(nil, v, f) of the same build as the reference for the appended bytes (its own correctness is C01/C14)"},
		Subs: []core.Sub{
			{Name: "values", N: core.Const(5000, 100000), Run: runValues},
			{Name: "capacity-sweep", N: core.Const(3000, 60000), Run: runCapSweep},
			{Name: "rollback", N: core.Const(1500, 40000), Run: runRollback},
			{Name: "escape", N: core.Const(1500, 40000), Run: runEscape},
		},
	})
}
