#!/bin/bash
# Runs the repository's pinned baseline suite with the verif guard OFF (no -tags verif).
export GOFLAGS=-mod=mod GOPROXY=off GOSUMDB=off GOTOOLCHAIN=local
rc=0
for m in . ./proto/fixtures; do
  (cd /repo/$m && go test -json -vet=off -count=1 -timeout 25m ./...) || rc=1
done
exit $rc
