// Package jtypes builds Go types at run time (reflect.StructOf & co.) and offers a
// hand-written library of named types for what reflect cannot express: methods
// (Marshaler / TextMarshaler / Unmarshaler / TextUnmarshaler on value and pointer
// receivers, failing and misbehaving ones), embedding rules, recursive types.
package jtypes

import (
	"errors"
	"fmt"
	"reflect"
	"strconv"
	"strings"
)

// --- marshalers ---------------------------------------------------------------

// MV: MarshalJSON on the value receiver.
type MV struct{ S string }

func (m MV) MarshalJSON() ([]byte, error) { return []byte(`{"mv":` + strconv.Quote(m.S) + `}`), nil }

// MP: MarshalJSON on the pointer receiver (only called when addressable).
type MP struct{ S string }

func (m *MP) MarshalJSON() ([]byte, error) {
	if m == nil {
		return []byte(`"nil-MP"`), nil
	}
	return []byte(`[` + strconv.Quote(m.S) + `]`), nil
}

// TV: MarshalText on the value receiver.
type TV struct{ S string }

func (t TV) MarshalText() ([]byte, error) { return []byte("tv:" + t.S), nil }

// TP: MarshalText on the pointer receiver.
type TP struct{ S string }

func (t *TP) MarshalText() ([]byte, error) {
	if t == nil {
		return []byte("nil-TP"), nil
	}
	return []byte("tp:" + t.S), nil
}

// MErr fails when S == "err".
type MErr struct{ S string }

func (m MErr) MarshalJSON() ([]byte, error) {
	if m.S == "err" {
		return nil, errors.New("MErr: refused")
	}
	return []byte(strconv.Quote(m.S)), nil
}

// MRaw returns S verbatim: padded, compactable, HTML-carrying or invalid JSON.
type MRaw struct{ S string }

func (m MRaw) MarshalJSON() ([]byte, error) { return []byte(m.S), nil }

// TErr fails when S == "err".
type TErr struct{ S string }

func (t TErr) MarshalText() ([]byte, error) {
	if t.S == "err" {
		return nil, errors.New("TErr: refused")
	}
	return []byte(t.S), nil
}

// SInt: an int kind with a value-receiver MarshalJSON (method beats kind).
type SInt int

func (s SInt) MarshalJSON() ([]byte, error) {
	return []byte(`"sint:` + strconv.Itoa(int(s)) + `"`), nil
}

// SStr: a string kind with MarshalText (as value: text; as map key: std uses the string itself).
type SStr string

func (s SStr) MarshalText() ([]byte, error) { return []byte("sstr:" + string(s)), nil }

// KeyT: struct map key with TextMarshaler / TextUnmarshaler.
type KeyT struct{ A, B int }

func (k KeyT) MarshalText() ([]byte, error) { return []byte(fmt.Sprintf("%d/%d", k.A, k.B)), nil }
func (k *KeyT) UnmarshalText(b []byte) error {
	p := strings.SplitN(string(b), "/", 2)
	if len(p) != 2 {
		return errors.New("KeyT: bad key")
	}
	var err error
	if k.A, err = strconv.Atoi(p[0]); err != nil {
		return err
	}
	k.B, err = strconv.Atoi(p[1])
	return err
}

// KInt: integer map key type with MarshalText (TextMarshaler beats the int kind for keys).
type KInt int

func (k KInt) MarshalText() ([]byte, error) { return []byte("k" + strconv.Itoa(int(k))), nil }
func (k *KInt) UnmarshalText(b []byte) error {
	n, err := strconv.Atoi(strings.TrimPrefix(string(b), "k"))
	*k = KInt(n)
	return err
}

// NStr: named string key / value without methods.
type NStr string

// NInt8 etc: named ints
type NInt8 int8
type NUint16 uint16
type NBool bool
type NFloat float64
type NBytes []byte
type NByte byte
type NByteSlice []NByte

// --- unmarshalers ---------------------------------------------------------------

// UP: UnmarshalJSON on the pointer receiver; records the raw input.
type UP struct {
	Raw string
	N   int
}

func (u *UP) UnmarshalJSON(b []byte) error {
	if string(b) == `"fail"` {
		return errors.New("UP: refused")
	}
	u.Raw = string(b)
	u.N++
	return nil
}

// UT: UnmarshalText on the pointer receiver.
type UT struct {
	Txt string
	N   int
}

func (u *UT) UnmarshalText(b []byte) error {
	if string(b) == "fail" {
		return errors.New("UT: refused")
	}
	u.Txt = string(b)
	u.N++
	return nil
}

// MU: both directions.
type MU struct{ V int }

func (m MU) MarshalJSON() ([]byte, error) { return []byte(`{"v":` + strconv.Itoa(m.V) + `}`), nil }
func (m *MU) UnmarshalJSON(b []byte) error {
	s := strings.TrimSuffix(strings.TrimPrefix(string(b), `{"v":`), `}`)
	n, err := strconv.Atoi(strings.TrimSpace(s))
	if err != nil {
		return fmt.Errorf("MU: %q", b)
	}
	m.V = n
	return nil
}

// --- embedding -------------------------------------------------------------------

type Emb struct {
	E1 int    `json:"e1"`
	E2 string `json:"e2,omitempty"`
	X  int
}

type emb struct { // unexported embedded struct with exported fields
	U1 int
	X  int
}

type Emb2 struct {
	E1 int `json:"e1"` // conflicts with Emb.E1 at the same depth (both tagged → ambiguity → dropped)
	Y  string
}

type WEmb struct {
	Emb
	Z int
}

type WEmbPtr struct {
	*Emb
	Z int
}

type WUnexp struct {
	emb
	Z int
}

type WUnexpPtr struct {
	*emb
	Z int
}

type WAmbig struct {
	Emb
	Emb2
	X int // shadows Emb.X
}

type WDeep struct {
	WEmb
	*Emb2
	Q *WEmbPtr
}

type WTagged struct {
	Emb  `json:"emb"`
	Emb2 `json:",omitempty"`
	M    map[string]int
}

type embI interface{ Foo() }

// WIface embeds nothing but has interface-typed fields with methods
type WIface struct {
	A any
	S fmt.Stringer
	E error
}

// --- recursion -------------------------------------------------------------------

type Rec struct {
	V    int
	Next *Rec            `json:",omitempty"`
	Kids []Rec           `json:"kids,omitempty"`
	M    map[string]*Rec `json:"m,omitempty"`
}

type RecA struct {
	B *RecB
	N int
}
type RecB struct {
	A []RecA
	S string
}

// --- single-field / pointer-shaped corners -----------------------------------------

type OnePtr struct{ P *int }
type OneMap struct{ M map[string]int }
type OneNested struct{ In OnePtr }
type OneNested2 struct{ In OneNested }
type OneArr [1]*int
type OneArrMap [1]map[string]int
type OneArrStruct [1]OnePtr
type OneIface struct{ I any }
type OneFunc struct {
	F func() `json:"-"`
	V int
}
type OneChan struct{ C chan int } // unsupported by both

// --- string option / omitempty matrix ---------------------------------------------------

type StrOpt struct {
	I   int      `json:"i,string"`
	I8  int8     `json:",string"`
	U   uint64   `json:"u,string,omitempty"`
	F   float64  `json:"f,string"`
	F32 float32  `json:",string"`
	B   bool     `json:"b,string"`
	S   string   `json:"s,string"`
	P   *int     `json:"p,string"`
	PS  *string  `json:"ps,string"`
	X   []int    `json:"x,string"` // ignored for non-scalars
	N   NInt8    `json:"n,string"`
	St  struct{} `json:"st,string"`
}

type OmitAll struct {
	B  bool              `json:",omitempty"`
	I  int               `json:",omitempty"`
	F  float64           `json:",omitempty"`
	S  string            `json:",omitempty"`
	P  *int              `json:",omitempty"`
	Sl []int             `json:",omitempty"`
	M  map[string]int    `json:",omitempty"`
	A0 [0]int            `json:",omitempty"`
	A2 [2]int            `json:",omitempty"`
	St struct{}          `json:",omitempty"`
	If any               `json:",omitempty"`
	T  MV                `json:",omitempty"`
	Mp *MP               `json:",omitempty"`
	By []byte            `json:",omitempty"`
	Nm map[KInt]struct{} `json:",omitempty"`
}

// Library lists the named types (used as stand-alone targets and as leaves of generated types).
var Library = []reflect.Type{
	reflect.TypeOf(MV{}), reflect.TypeOf(MP{}), reflect.TypeOf(TV{}), reflect.TypeOf(TP{}), reflect.TypeOf(MErr{}), reflect.TypeOf(MRaw{}), reflect.TypeOf(TErr{}),
	reflect.TypeOf(SInt(0)), reflect.TypeOf(SStr("")), reflect.TypeOf(KeyT{}), reflect.TypeOf(KInt(0)), reflect.TypeOf(NStr("")), reflect.TypeOf(NInt8(0)), reflect.TypeOf(NUint16(0)),
	reflect.TypeOf(NBool(false)), reflect.TypeOf(NFloat(0)), reflect.TypeOf(NBytes(nil)), reflect.TypeOf(NByteSlice(nil)),
	reflect.TypeOf(UP{}), reflect.TypeOf(UT{}), reflect.TypeOf(MU{}),
	reflect.TypeOf(Emb{}), reflect.TypeOf(WEmb{}), reflect.TypeOf(WEmbPtr{}), reflect.TypeOf(WUnexp{}), reflect.TypeOf(WUnexpPtr{}), reflect.TypeOf(WAmbig{}), reflect.TypeOf(WDeep{}), reflect.TypeOf(WTagged{}), reflect.TypeOf(WIface{}),
	reflect.TypeOf(Rec{}), reflect.TypeOf(RecA{}),
	reflect.TypeOf(OnePtr{}), reflect.TypeOf(OneMap{}), reflect.TypeOf(OneNested{}), reflect.TypeOf(OneNested2{}), reflect.TypeOf(OneArr{}), reflect.TypeOf(OneArrMap{}), reflect.TypeOf(OneArrStruct{}), reflect.TypeOf(OneIface{}), reflect.TypeOf(OneFunc{}),
	reflect.TypeOf(StrOpt{}), reflect.TypeOf(OmitAll{}),
}

// Leaves: small named types suitable as fields / elements / map values of generated types.
var Leaves = []reflect.Type{
	reflect.TypeOf(MV{}), reflect.TypeOf(MP{}), reflect.TypeOf(TV{}), reflect.TypeOf(TP{}), reflect.TypeOf(SInt(0)), reflect.TypeOf(SStr("")), reflect.TypeOf(NStr("")), reflect.TypeOf(NInt8(0)),
	reflect.TypeOf(NBool(false)), reflect.TypeOf(NFloat(0)), reflect.TypeOf(NBytes(nil)), reflect.TypeOf(UP{}), reflect.TypeOf(UT{}), reflect.TypeOf(MU{}), reflect.TypeOf(Emb{}), reflect.TypeOf(OnePtr{}), reflect.TypeOf(OneMap{}),
	reflect.TypeOf(KeyT{}), reflect.TypeOf(KInt(0)), reflect.TypeOf(Rec{}),
}

// ErrLeaves can make Marshal fail / emit odd JSON; used by monitors that want error paths.
var ErrLeaves = []reflect.Type{reflect.TypeOf(MErr{}), reflect.TypeOf(MRaw{}), reflect.TypeOf(TErr{})}
