#!/bin/bash
# Runs every seeded change against its property's quick check (scratch worktree, never /repo) and
# prints one line per mutant: CAUGHT (exit 1 with a VIOLATION line) or MISSED.
# SWEEP_JOBS mutants run at a time (default 4); the lines come out in completion order.
cd /verif
one() {
  d=$1; tier=$2
  n=$(basename $d); p=${n%-*}
  out=$(scripts/mutant_scratch.sh $d/patch.diff $p $tier 2>&1)
  rc=$(echo "$out" | grep -a -o 'mutant-result.*exit=[0-9]*' | grep -o '[0-9]*$')
  nv=$(echo "$out" | grep -a -c '^VIOLATION')
  if [ "$rc" = "1" ] && [ "$nv" -gt 0 ]; then echo "CAUGHT $n ($nv violation keys)"; else echo "MISSED $n rc=$rc"; fi
}
export -f one
ls -d seeded/*/ | xargs -P ${SWEEP_JOBS:-4} -I{} bash -c "one {} ${1:-quick}"
