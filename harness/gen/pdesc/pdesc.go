// Package pdesc derives a protobuf message descriptor from a Go struct type by the table
// proto.TypeOf documents, and converts between Go values and dynamic messages of the
// reference implementation (google.golang.org/protobuf).
package pdesc

import (
	"fmt"
	"reflect"

	"google.golang.org/protobuf/proto"
	"google.golang.org/protobuf/reflect/protodesc"
	"google.golang.org/protobuf/reflect/protoreflect"
	"google.golang.org/protobuf/types/descriptorpb"
	"google.golang.org/protobuf/types/dynamicpb"
	"verifharness/gen/pwire"
)

type builder struct {
	file  *descriptorpb.FileDescriptorProto
	names map[reflect.Type]string
	n     int
}

func base(t reflect.Type) reflect.Type {
	for t.Kind() == reflect.Pointer {
		t = t.Elem()
	}
	return t
}

// scalarType maps a Go kind (+ tag wire word) to a protobuf scalar type.
func scalarType(t reflect.Type, wire string) (descriptorpb.FieldDescriptorProto_Type, bool) {
	switch t.Kind() {
	case reflect.Bool:
		return descriptorpb.FieldDescriptorProto_TYPE_BOOL, true
	case reflect.Int, reflect.Int64:
		if wire == "zigzag64" {
			return descriptorpb.FieldDescriptorProto_TYPE_SINT64, true
		}
		return descriptorpb.FieldDescriptorProto_TYPE_INT64, true
	case reflect.Int32:
		if wire == "zigzag32" {
			return descriptorpb.FieldDescriptorProto_TYPE_SINT32, true
		}
		return descriptorpb.FieldDescriptorProto_TYPE_INT32, true
	case reflect.Uint, reflect.Uint64:
		if wire == "fixed64" {
			return descriptorpb.FieldDescriptorProto_TYPE_FIXED64, true
		}
		return descriptorpb.FieldDescriptorProto_TYPE_UINT64, true
	case reflect.Uint32:
		if wire == "fixed32" {
			return descriptorpb.FieldDescriptorProto_TYPE_FIXED32, true
		}
		return descriptorpb.FieldDescriptorProto_TYPE_UINT32, true
	case reflect.Float32:
		return descriptorpb.FieldDescriptorProto_TYPE_FLOAT, true
	case reflect.Float64:
		return descriptorpb.FieldDescriptorProto_TYPE_DOUBLE, true
	case reflect.String:
		return descriptorpb.FieldDescriptorProto_TYPE_STRING, true
	case reflect.Slice:
		if t.Elem().Kind() == reflect.Uint8 {
			return descriptorpb.FieldDescriptorProto_TYPE_BYTES, true
		}
	}
	return 0, false
}

func (b *builder) message(t reflect.Type) (string, error) {
	t = base(t)
	if n, ok := b.names[t]; ok {
		return n, nil
	}
	b.n++
	name := fmt.Sprintf("M%d", b.n)
	b.names[t] = name
	md := &descriptorpb.DescriptorProto{Name: proto.String(name)}
	b.file.MessageType = append(b.file.MessageType, md)
	for _, fi := range pwire.FieldsOf(t) {
		fd := &descriptorpb.FieldDescriptorProto{
			Name:   proto.String(fmt.Sprintf("f%dn%d", fi.Index, fi.Number)),
			Number: proto.Int32(int32(fi.Number)),
			Label:  descriptorpb.FieldDescriptorProto_LABEL_OPTIONAL.Enum(),
		}
		ft := base(fi.Type)
		switch {
		case ft.Kind() == reflect.Map:
			en := fmt.Sprintf("F%dn%dEntry", fi.Index, fi.Number)
			entry := &descriptorpb.DescriptorProto{Name: proto.String(en), Options: &descriptorpb.MessageOptions{MapEntry: proto.Bool(true)}}
			kf, err := b.field("key", 1, ft.Key(), "")
			if err != nil {
				return "", err
			}
			vf, err := b.field("value", 2, ft.Elem(), "")
			if err != nil {
				return "", err
			}
			entry.Field = []*descriptorpb.FieldDescriptorProto{kf, vf}
			md.NestedType = append(md.NestedType, entry)
			fd.Label = descriptorpb.FieldDescriptorProto_LABEL_REPEATED.Enum()
			fd.Type = descriptorpb.FieldDescriptorProto_TYPE_MESSAGE.Enum()
			fd.TypeName = proto.String(".v." + name + "." + en)
		case ft.Kind() == reflect.Slice && ft.Elem().Kind() != reflect.Uint8:
			ef, err := b.field("x", 1, ft.Elem(), fi.Wire)
			if err != nil {
				return "", err
			}
			fd.Label = descriptorpb.FieldDescriptorProto_LABEL_REPEATED.Enum()
			fd.Type, fd.TypeName = ef.Type, ef.TypeName
			if ef.GetType() != descriptorpb.FieldDescriptorProto_TYPE_MESSAGE && ef.GetType() != descriptorpb.FieldDescriptorProto_TYPE_STRING && ef.GetType() != descriptorpb.FieldDescriptorProto_TYPE_BYTES {
				fd.Options = &descriptorpb.FieldOptions{Packed: proto.Bool(false)}
			}
		default:
			sf, err := b.field("x", 1, fi.Type, fi.Wire)
			if err != nil {
				return "", err
			}
			fd.Type, fd.TypeName = sf.Type, sf.TypeName
		}
		md.Field = append(md.Field, fd)
	}
	return name, nil
}

func (b *builder) field(name string, num int32, t reflect.Type, wire string) (*descriptorpb.FieldDescriptorProto, error) {
	fd := &descriptorpb.FieldDescriptorProto{Name: proto.String(name), Number: proto.Int32(num), Label: descriptorpb.FieldDescriptorProto_LABEL_OPTIONAL.Enum()}
	bt := base(t)
	if st, ok := scalarType(bt, wire); ok {
		fd.Type = st.Enum()
		return fd, nil
	}
	if bt.Kind() == reflect.Struct {
		mn, err := b.message(bt)
		if err != nil {
			return nil, err
		}
		fd.Type = descriptorpb.FieldDescriptorProto_TYPE_MESSAGE.Enum()
		fd.TypeName = proto.String(".v." + mn)
		return fd, nil
	}
	return nil, fmt.Errorf("no protobuf equivalent for %s", t)
}

// Descriptor builds the message descriptor of the Go struct type t (proto2 syntax: every
// singular field has explicit presence, repeated scalars are not packed).
func Descriptor(t reflect.Type) (protoreflect.MessageDescriptor, error) {
	b := &builder{file: &descriptorpb.FileDescriptorProto{Name: proto.String("v.proto"), Package: proto.String("v"), Syntax: proto.String("proto2")}, names: map[reflect.Type]string{}}
	name, err := b.message(t)
	if err != nil {
		return nil, err
	}
	fdesc, err := protodesc.NewFile(b.file, nil)
	if err != nil {
		return nil, err
	}
	return fdesc.Messages().ByName(protoreflect.Name(name)), nil
}

// Carries mirrors the package's model of an explicitly present but empty message (see C03).
var Carries func(v reflect.Value) bool

func scalarValue(v reflect.Value, fd protoreflect.FieldDescriptor) protoreflect.Value {
	switch fd.Kind() {
	case protoreflect.BoolKind:
		return protoreflect.ValueOfBool(v.Bool())
	case protoreflect.Int32Kind, protoreflect.Sint32Kind, protoreflect.Sfixed32Kind:
		return protoreflect.ValueOfInt32(int32(v.Int()))
	case protoreflect.Int64Kind, protoreflect.Sint64Kind, protoreflect.Sfixed64Kind:
		return protoreflect.ValueOfInt64(v.Int())
	case protoreflect.Uint32Kind, protoreflect.Fixed32Kind:
		return protoreflect.ValueOfUint32(uint32(v.Uint()))
	case protoreflect.Uint64Kind, protoreflect.Fixed64Kind:
		return protoreflect.ValueOfUint64(v.Uint())
	case protoreflect.FloatKind:
		return protoreflect.ValueOfFloat32(float32(v.Float()))
	case protoreflect.DoubleKind:
		return protoreflect.ValueOfFloat64(v.Float())
	case protoreflect.StringKind:
		return protoreflect.ValueOfString(v.String())
	case protoreflect.BytesKind:
		return protoreflect.ValueOfBytes(append([]byte{}, v.Bytes()...))
	}
	panic("scalarValue: " + fd.Kind().String())
}

// ToDynamic builds the reference message that the Go value v stands for in the package's model:
// non-pointer zero scalars and empty collections are absent, pointers to scalars are present
// when non-nil, nested messages are present when they have any populated field (or, behind a
// non-nil pointer, when they can carry an explicit zero).
func ToDynamic(md protoreflect.MessageDescriptor, v reflect.Value) *dynamicpb.Message {
	m := dynamicpb.NewMessage(md)
	t := v.Type()
	for _, fi := range pwire.FieldsOf(t) {
		fd := md.Fields().ByNumber(protoreflect.FieldNumber(fi.Number))
		fv := v.Field(fi.Index)
		viaPointer := false
		for fv.Kind() == reflect.Pointer {
			if fv.IsNil() {
				break
			}
			viaPointer = true
			fv = fv.Elem()
		}
		if fv.Kind() == reflect.Pointer {
			continue // nil
		}
		switch {
		case fd.IsMap():
			if fv.Len() == 0 {
				continue
			}
			mp := m.Mutable(fd).Map()
			it := fv.MapRange()
			for it.Next() {
				k := scalarValue(it.Key(), fd.MapKey()).MapKey()
				ev := it.Value()
				for ev.Kind() == reflect.Pointer && !ev.IsNil() {
					ev = ev.Elem()
				}
				if fd.MapValue().Kind() == protoreflect.MessageKind {
					if ev.Kind() == reflect.Pointer {
						mp.Set(k, protoreflect.ValueOfMessage(dynamicpb.NewMessage(fd.MapValue().Message())))
					} else {
						mp.Set(k, protoreflect.ValueOfMessage(ToDynamic(fd.MapValue().Message(), ev)))
					}
				} else {
					mp.Set(k, scalarValue(ev, fd.MapValue()))
				}
			}
		case fd.IsList():
			if fv.Len() == 0 {
				continue
			}
			l := m.Mutable(fd).List()
			for i := 0; i < fv.Len(); i++ {
				ev := fv.Index(i)
				for ev.Kind() == reflect.Pointer && !ev.IsNil() {
					ev = ev.Elem()
				}
				if fd.Kind() == protoreflect.MessageKind {
					l.Append(protoreflect.ValueOfMessage(ToDynamic(fd.Message(), ev)))
				} else {
					l.Append(scalarValue(ev, fd))
				}
			}
		case fd.Kind() == protoreflect.MessageKind:
			sub := ToDynamic(fd.Message(), fv)
			populated := false
			sub.Range(func(protoreflect.FieldDescriptor, protoreflect.Value) bool { populated = true; return false })
			if populated || (viaPointer && Carries != nil && Carries(fv)) {
				m.Set(fd, protoreflect.ValueOfMessage(sub))
			}
		default:
			if viaPointer || !fv.IsZero() {
				if fd.Kind() == protoreflect.BytesKind && !viaPointer && fv.IsNil() {
					continue
				}
				m.Set(fd, scalarValue(fv, fd))
			}
		}
	}
	return m
}

// FromDynamic converts a reference message into a Go value of type t (the struct type the
// descriptor was built from): pointer fields are set exactly when the field is present.
func FromDynamic(m protoreflect.Message, t reflect.Type) reflect.Value {
	v := reflect.New(t).Elem()
	md := m.Descriptor()
	for _, fi := range pwire.FieldsOf(t) {
		fd := md.Fields().ByNumber(protoreflect.FieldNumber(fi.Number))
		dst := v.Field(fi.Index)
		ft := fi.Type
		switch {
		case fd.IsMap():
			mt := base(ft)
			if !m.Has(fd) {
				continue
			}
			mp := reflect.MakeMap(mt)
			m.Get(fd).Map().Range(func(k protoreflect.MapKey, val protoreflect.Value) bool {
				kv := reflect.New(mt.Key()).Elem()
				setScalar(kv, k.Value(), fd.MapKey())
				ev := reflect.New(mt.Elem()).Elem()
				setField(ev, val, fd.MapValue(), true)
				mp.SetMapIndex(kv, ev)
				return true
			})
			assign(dst, mp)
		case fd.IsList():
			if !m.Has(fd) {
				continue
			}
			l := m.Get(fd).List()
			st := base(ft)
			s := reflect.MakeSlice(st, l.Len(), l.Len())
			for i := 0; i < l.Len(); i++ {
				setField(s.Index(i), l.Get(i), fd, true)
			}
			assign(dst, s)
		default:
			if ft.Kind() == reflect.Pointer {
				if m.Has(fd) {
					setField(dst, m.Get(fd), fd, true)
				}
			} else if m.Has(fd) {
				setField(dst, m.Get(fd), fd, true)
			}
		}
	}
	return v
}

// assign stores val (a non-pointer value) into dst, allocating pointers as needed.
func assign(dst reflect.Value, val reflect.Value) {
	for dst.Kind() == reflect.Pointer {
		if dst.IsNil() {
			dst.Set(reflect.New(dst.Type().Elem()))
		}
		dst = dst.Elem()
	}
	dst.Set(val)
}

func setField(dst reflect.Value, val protoreflect.Value, fd protoreflect.FieldDescriptor, present bool) {
	for dst.Kind() == reflect.Pointer {
		if dst.IsNil() {
			dst.Set(reflect.New(dst.Type().Elem()))
		}
		dst = dst.Elem()
	}
	if fd.Kind() == protoreflect.MessageKind {
		dst.Set(FromDynamic(val.Message(), dst.Type()))
		return
	}
	setScalar(dst, val, fd)
}

func setScalar(dst reflect.Value, val protoreflect.Value, fd protoreflect.FieldDescriptor) {
	switch dst.Kind() {
	case reflect.Bool:
		dst.SetBool(val.Bool())
	case reflect.Int, reflect.Int32, reflect.Int64:
		dst.SetInt(val.Int())
	case reflect.Uint, reflect.Uint32, reflect.Uint64:
		dst.SetUint(val.Uint())
	case reflect.Float32, reflect.Float64:
		dst.SetFloat(val.Float())
	case reflect.String:
		dst.SetString(val.String())
	case reflect.Slice:
		dst.SetBytes(append([]byte{}, val.Bytes()...))
	}
}
