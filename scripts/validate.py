#!/usr/bin/env python3
# validates MANIFEST.json and evidence files against the schemas (development aid)
import json, sys, glob
import jsonschema
m = json.load(open('/verif/MANIFEST.json')) if glob.glob('/verif/MANIFEST.json') else None
if m is not None:
    jsonschema.validate(m, json.load(open('/root/.vp/MANIFEST.schema.json')))
    print('MANIFEST ok,', len(m['checks']), 'checks')
es = json.load(open('/root/.vp/EVIDENCE.schema.json'))
for f in sorted(glob.glob('/verif/evidence/*.json')):
    e = json.load(open(f))
    jsonschema.validate(e, es)
    c = e['coverage']
    print(f.split('/')[-1], 'ok', e['tier'], 'evals', c['evaluations'], 'distinct', c['distinct_nontrivial'], 'viol', e.get('violations'), 'inconcl', len(c.get('inconclusive') or []))
