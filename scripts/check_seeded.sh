#!/bin/bash
# Reports which seeded patches still apply to /repo HEAD (git apply --check; nothing is modified).
cd /verif/seeded || exit 2
bad=0
for d in */; do
  d=${d%/}
  if git -C /repo apply --check "/verif/seeded/$d/patch.diff" 2>/dev/null; then :; else echo "DOES-NOT-APPLY $d"; bad=$((bad+1)); fi
done
echo "seeded: $(ls -d */ | wc -l) mutants, $bad do not apply"
