// Package c18: iso8601.Parse agrees with time.Parse(RFC3339Nano); Valid is the
// stated grammar, never allocates, never panics.
package c18

import (
	"fmt"
	"runtime"
	"time"

	"github.com/segmentio/encoding/iso8601"
	"verifharness/core"
)

// cmpParse runs both parsers on s and reports a disagreement.
func cmpParse(c *core.Case, class, s string) {
	var t1 time.Time
	var e1 error
	if sig, stack := core.Guard(func() { t1, e1 = iso8601.Parse(s) }); sig != "" {
		c.Violation(class, sig, fmt.Sprintf("Parse(%q) panicked: %s", s, stack), map[string]any{"input": s})
		return
	}
	t2, e2 := time.Parse(time.RFC3339Nano, s)
	switch {
	case e1 == nil && e2 != nil:
		c.Violation(class, "pkg=ok,ref=err", fmt.Sprintf("Parse(%q) = %v, time.Parse rejects: %v", s, t1, e2), map[string]any{"input": s})
	case e1 != nil && e2 == nil:
		c.Violation(class, "pkg=err,ref=ok", fmt.Sprintf("Parse(%q) fails (%v), time.Parse = %v", s, e1, t2), map[string]any{"input": s})
	case e1 == nil:
		_, o1 := t1.Zone()
		_, o2 := t2.Zone()
		if !t1.Equal(t2) || o1 != o2 {
			c.Violation(class, "value-diff", fmt.Sprintf("Parse(%q) = %v, time.Parse = %v", s, t1.Format(time.RFC3339Nano), t2.Format(time.RFC3339Nano)), map[string]any{"input": s})
		} else if len(s) > 0 && s[len(s)-1] == 'Z' && t1.Location() != time.UTC {
			c.Violation(class, "not-utc", fmt.Sprintf("Parse(%q) location %v", s, t1.Location()), map[string]any{"input": s})
		}
	}
}

func put2(b []byte, v int) { b[0] = byte('0' + v/10%10); b[1] = byte('0' + v%10) }

// date sweep: one case per year.
func runDate(c *core.Case) {
	year := c.Index
	c.Journal("date-sweep")
	tods := []string{"T00:00:00Z", "T23:59:59.999999999Z"}
	if c.Tier == core.Thorough {
		tods = append(tods, "T12:30:45.5Z", "T07:08:09+05:30")
	}
	n := 0
	for _, tod := range tods {
		buf := []byte(fmt.Sprintf("%04d-00-00%s", year, tod))
		for m := 0; m <= 13; m++ {
			put2(buf[5:], m)
			for d := 0; d <= 32; d++ {
				put2(buf[8:], d)
				cmpParse(c, "calendar-date", string(buf))
				n++
			}
		}
	}
	c.Count("evaluations.parse", n)
	c.Distinct(uint64(year), true)
	if year == 2000 || year == 0 || year == 9999 {
		c.Sample(year, map[string]any{"sub": "date-sweep", "year": year, "months": "00-13", "days": "00-32", "times_of_day": tods, "strings": n})
	}
}

// time sweep: one case per (date, hour).
func runTime(c *core.Case) {
	dates := []string{"2021-03-25", "1999-12-31", "0000-01-01", "9999-12-31"}
	date := dates[c.Index/25]
	hh := c.Index % 25
	c.Journal("time-sweep")
	n := 0
	fracs := []string{"", ".1", ".12", ".123", ".1234", ".12345", ".123456", ".1234567", ".12345678", ".123456789", ".1234567890", ".", ".000000000", ".999999999"}
	for mm := 0; mm <= 60; mm++ {
		for ss := 0; ss <= 61; ss++ {
			fr := fracs[(mm+ss)%len(fracs)]
			if mm == 59 || ss == 59 || (mm == 0 && ss == 0) {
				for _, f := range fracs {
					cmpParse(c, "time-of-day", fmt.Sprintf("%sT%02d:%02d:%02d%sZ", date, hh, mm, ss, f))
					n++
				}
			}
			cmpParse(c, "time-of-day", fmt.Sprintf("%sT%02d:%02d:%02d%sZ", date, hh, mm, ss, fr))
			n++
		}
	}
	c.Count("evaluations.parse", n)
	c.Distinct(uint64(c.Index)+100000, true)
	c.Sample(0, map[string]any{"sub": "time-sweep", "date": date, "hour": hh, "minutes": "00-60", "seconds": "00-61", "fraction_lengths": "0-10", "strings": n})
}

var templates = []string{
	"2021-03-25T21:36:12Z",
	"2021-03-25T21:36:12.1Z",
	"2021-03-25T21:36:12.12Z",
	"2021-03-25T21:36:12.123Z",
	"2021-03-25T21:36:12.1234Z",
	"2021-03-25T21:36:12.12345Z",
	"2021-03-25T21:36:12.123456Z",
	"2021-03-25T21:36:12.1234567Z",
	"2021-03-25T21:36:12.12345678Z",
	"2021-03-25T21:36:12.123456789Z",
	"2000-02-29T00:00:00.000000000Z",
	"2021-03-25T21:36:12+01:00",
	"2021-03-25T21:36:12.5-07:30",
}

type bytePos struct{ t, p int }

var bytePositions = func() []bytePos {
	var r []bytePos
	for t, s := range templates {
		for p := range s {
			r = append(r, bytePos{t, p})
		}
	}
	return r
}()

// byte sweep: every byte value at one position of one template.
func runByte(c *core.Case) {
	bp := bytePositions[c.Index]
	tpl := templates[bp.t]
	c.Journal(posClass(tpl, bp.p))
	b := []byte(tpl)
	for v := 0; v < 256; v++ {
		b[bp.p] = byte(v)
		cmpParse(c, posClass(tpl, bp.p), string(b))
	}
	// insertion and deletion at this position
	for v := 0; v < 256; v++ {
		ins := append(append(append([]byte{}, tpl[:bp.p]...), byte(v)), tpl[bp.p:]...)
		cmpParse(c, "byte-insert", string(ins))
	}
	cmpParse(c, "byte-delete", tpl[:bp.p]+tpl[bp.p+1:])
	cmpParse(c, "truncate", tpl[:bp.p])
	c.Count("evaluations.parse", 514)
	c.Distinct(core.Mix(uint64(bp.t), uint64(bp.p)), true)
	c.Sample(len(tpl), map[string]any{"sub": "byte-sweep", "template": tpl, "position": bp.p, "values": "all 256 substituted, all 256 inserted, deletion, truncation"})
}

func posClass(tpl string, p int) string {
	ch := tpl[p]
	switch {
	case ch >= '0' && ch <= '9':
		return "byte-at-digit"
	case p == len(tpl)-1 || ch == '+' || (ch == '-' && p > 10):
		return "byte-at-zone"
	default:
		return "byte-at-separator"
	}
}

// pair sweep: all 256x256 values at two separator positions of one template.
var sepPos = []int{4, 7, 10, 13, 16}

func runPair(c *core.Case) {
	pair := c.Index / 256
	v1 := c.Index % 256
	var p1, p2 int
	k := 0
	for i := 0; i < len(sepPos); i++ {
		for j := i + 1; j < len(sepPos); j++ {
			if k == pair {
				p1, p2 = sepPos[i], sepPos[j]
			}
			k++
		}
	}
	c.Journal("separator-pair")
	tpl := templates[3+c.Index%4]
	b := []byte(tpl)
	b[p1] = byte(v1)
	for v2 := 0; v2 < 256; v2++ {
		b[p2] = byte(v2)
		cmpParse(c, "separator-pair", string(b))
	}
	c.Count("evaluations.parse", 256)
	c.Distinct(uint64(c.Index)+1<<40, true)
}

// generated strings -----------------------------------------------------------

func genTimestamp(r *core.Rand) string {
	y := r.Intn(10000)
	mo := 1 + r.Intn(12)
	d := 1 + r.Intn(28)
	if r.Chance(1, 6) {
		mo, d = r.Intn(14), r.Intn(33)
	}
	if r.Chance(1, 10) {
		y = []int{0, 1, 1600, 1900, 1970, 2000, 2100, 2400, 9999, 1969, 4, 100, 400}[r.Intn(13)]
		if r.Bool() {
			mo, d = 2, 28+r.Intn(3)
		}
	}
	h, mi, s := r.Intn(24), r.Intn(60), r.Intn(60)
	if r.Chance(1, 10) {
		h, mi, s = r.Intn(26), r.Intn(62), r.Intn(62)
	}
	sep := "T"
	if r.Chance(1, 12) {
		sep = core.Pick(r, []string{" ", "t", "_", ""})
	}
	out := fmt.Sprintf("%04d-%02d-%02d%s%02d:%02d:%02d", y, mo, d, sep, h, mi, s)
	if r.Chance(1, 30) {
		out = fmt.Sprintf("%04d-%02d-%02d%s%d:%02d:%02d", y, mo, d, sep, h, mi, s) // 1-digit hour possible
	}
	if r.Chance(2, 3) {
		n := 1 + r.Intn(9)
		if r.Chance(1, 8) {
			n = 10 + r.Intn(6)
		}
		fs := core.Pick(r, []string{".", ".", ".", ","})
		for i := 0; i < n; i++ {
			fs += string(rune('0' + r.Intn(10)))
		}
		out += fs
	}
	switch r.Intn(8) {
	case 0, 1, 2, 3:
		out += "Z"
	case 4:
		out += core.Pick(r, []string{"z", "", "UTC", "Z ", "ZZ"})
	default:
		zh, zm := r.Intn(24), r.Intn(60)
		if r.Chance(1, 6) {
			zh, zm = r.Intn(30), r.Intn(70)
		}
		sign := core.Pick(r, []string{"+", "-"})
		if r.Chance(1, 8) {
			out += fmt.Sprintf("%s%02d%02d", sign, zh, zm)
		} else {
			out += fmt.Sprintf("%s%02d:%02d", sign, zh, zm)
		}
		if r.Chance(1, 10) {
			out += fmt.Sprintf(":%02d", r.Intn(60))
		}
	}
	return out
}

func mutate(r *core.Rand, s string) string {
	b := []byte(s)
	n := r.Intn(3)
	for i := 0; i < n && len(b) > 0; i++ {
		p := r.Intn(len(b))
		switch r.Intn(4) {
		case 0:
			b[p] = byte(r.Intn(256))
		case 1:
			b[p] ^= 1 << uint(r.Intn(8))
		case 2:
			b = append(b[:p], b[p+1:]...)
		case 3:
			b = append(b[:p], append([]byte{core.Pick(r, []byte("0123456789-:TZ.+ ,/;U"))}, b[p:]...)...)
		}
	}
	return string(b)
}

func runGen(c *core.Case) {
	c.Journal("generated")
	for i := 0; i < 64; i++ {
		s := genTimestamp(c.Rng)
		if c.Rng.Chance(1, 2) {
			s = mutate(c.Rng, s)
		}
		if c.Rng.Chance(1, 50) {
			s = string(c.Rng.Bytes(c.Rng.Intn(41)))
		}
		cmpParse(c, "generated", s)
		c.Distinct(core.HashString(s), len(s) >= 10)
		if i == 0 {
			c.Sample(0, map[string]any{"sub": "generated", "input": s})
		}
	}
	c.Count("evaluations.parse", 64)
}

// Valid ---------------------------------------------------------------------

// refValid is the grammar of the statement:
// YYYY-MM-DD[(T|space)hh:mm:ss[.d{1,9}][Z|[space](+|-)hh[:]mm]]
func refValid(s string, f iso8601.ValidFlags) bool {
	digits := func(n int) bool {
		if len(s) < n {
			return false
		}
		for i := 0; i < n; i++ {
			if s[i] < '0' || s[i] > '9' {
				return false
			}
		}
		s = s[n:]
		return true
	}
	lit := func(ch byte) bool {
		if len(s) > 0 && s[0] == ch {
			s = s[1:]
			return true
		}
		return false
	}
	if !(digits(4) && lit('-') && digits(2) && lit('-') && digits(2)) {
		return false
	}
	if s == "" {
		return f&iso8601.AllowMissingTime != 0
	}
	if !lit('T') {
		if !(f&iso8601.AllowSpaceSeparator != 0 && lit(' ')) {
			return false
		}
	}
	if !(digits(2) && lit(':') && digits(2) && lit(':') && digits(2)) {
		return false
	}
	if lit('.') {
		n := 0
		for n < 9 && len(s) > 0 && s[0] >= '0' && s[0] <= '9' {
			s = s[1:]
			n++
		}
		if n == 0 {
			return false
		}
	} else if f&iso8601.AllowMissingSubsecond == 0 {
		return false
	}
	if s == "" {
		return f&iso8601.AllowMissingTimezone != 0
	}
	if lit('Z') {
		return s == ""
	}
	if f&iso8601.AllowSpaceSeparator != 0 {
		lit(' ')
	}
	if !lit('+') && !lit('-') {
		return false
	}
	if !digits(2) {
		return false
	}
	if !lit(':') && f&iso8601.AllowNumericTimezone == 0 {
		return false
	}
	return digits(2) && s == ""
}

func genValidInput(r *core.Rand) string {
	s := fmt.Sprintf("%04d-%02d-%02d", r.Intn(10000), r.Intn(100), r.Intn(100))
	if r.Chance(1, 6) {
		return s
	}
	s += core.Pick(r, []string{"T", "T", "T", " ", "t", "_"})
	s += fmt.Sprintf("%02d:%02d:%02d", r.Intn(100), r.Intn(100), r.Intn(100))
	if r.Chance(2, 3) {
		s += "."
		n := r.Intn(11)
		for i := 0; i < n; i++ {
			s += string(rune('0' + r.Intn(10)))
		}
	}
	switch r.Intn(6) {
	case 0:
	case 1, 2:
		s += "Z"
	default:
		if r.Chance(1, 4) {
			s += " "
		}
		s += core.Pick(r, []string{"+", "-", "+", "-", "", "z"})
		s += fmt.Sprintf("%02d", r.Intn(100))
		if r.Chance(2, 3) {
			s += ":"
		}
		s += fmt.Sprintf("%02d", r.Intn(100))
		if r.Chance(1, 10) {
			s += core.Pick(r, []string{"Z", " ", "0", ":00"})
		}
	}
	return s
}

func runValidGen(c *core.Case) {
	c.Journal("valid-generated")
	inputs := make([]string, 0, 64)
	for i := 0; i < 64; i++ {
		s := genValidInput(c.Rng)
		if c.Rng.Chance(1, 2) {
			s = mutate(c.Rng, s)
		}
		inputs = append(inputs, s)
	}
	checkValid(c, "valid-generated", inputs)
	c.Sample(0, map[string]any{"sub": "valid-generated", "input": inputs[0], "flags": "all 64 values of the 6-bit flag word"})
}

func checkValid(c *core.Case, class string, inputs []string) {
	want := make([]bool, 0, len(inputs)*64)
	for _, s := range inputs {
		for f := 0; f < 64; f++ {
			want = append(want, refValid(s, iso8601.ValidFlags(f)))
		}
	}
	got := make([]bool, len(want))
	var ms0, ms1 runtime.MemStats
	var psig, pstack string
	cur := ""
	runtime.ReadMemStats(&ms0)
	psig, pstack = core.Guard(func() {
		k := 0
		for _, s := range inputs {
			cur = s
			for f := 0; f < 64; f++ {
				got[k] = iso8601.Valid(s, iso8601.ValidFlags(f))
				k++
			}
		}
	})
	runtime.ReadMemStats(&ms1)
	if psig != "" {
		c.Violation(class, psig, fmt.Sprintf("Valid(%q) panicked: %s", cur, pstack), map[string]any{"input": cur})
		return
	}
	if d := ms1.Mallocs - ms0.Mallocs; d != 0 && !c.W.Multi() {
		// The counter is process-wide: the runtime and the worker's own watchdog allocate now and
		// then, more often on a loaded machine. Valid is deterministic, so a call that allocates
		// does so every time: find an (input, flags) pair whose 64 repetitions cost at least 64
		// allocations, twice in a row. Background noise cannot do that.
		found := false
	pairs:
		for _, s := range inputs {
			for f := 0; f < 64; f++ {
				var n [2]uint64
				for rep := 0; rep < 2; rep++ {
					runtime.ReadMemStats(&ms0)
					for i := 0; i < 64; i++ {
						iso8601.Valid(s, iso8601.ValidFlags(f))
					}
					runtime.ReadMemStats(&ms1)
					n[rep] = ms1.Mallocs - ms0.Mallocs
					if n[rep] < 64 {
						break
					}
				}
				if n[0] >= 64 && n[1] >= 64 {
					c.Violation(class, "allocates", fmt.Sprintf("Valid(%q, %#x) allocates on every call: %d and %d heap allocations in two runs of 64 calls", s, f, n[0], n[1]), map[string]any{"input": s, "flags": f})
					found = true
					break pairs
				}
			}
		}
		if !found {
			c.Count("allocation-noise.not-attributable-to-a-call", int(d))
		}
	}
	k := 0
	for _, s := range inputs {
		for f := 0; f < 64; f++ {
			if got[k] != want[k] {
				c.Violation(class, fmt.Sprintf("pkg=%v,ref=%v", got[k], want[k]), fmt.Sprintf("Valid(%q, %#x)", s, f), map[string]any{"input": s, "flags": f})
			}
			k++
		}
		c.Distinct(core.HashString("v"+s), len(s) >= 10)
	}
	c.Count("evaluations.valid", len(want))
}

var validTemplates = []string{
	"2018-01-01T23:42:59.123456789Z", "2018-01-01T23:42:59.1+07:00", "2018-01-01 23:42:59 -0700", "2018-01-01", "2018-01-01T23:42:59", "2018-01-01T23:42:59Z", "2018-01-01 23:42:59.123-0700", "2018-01-01T23:42:59.12345678",
}

type vpos struct{ t, p int }

var validPositions = func() []vpos {
	var r []vpos
	for t, s := range validTemplates {
		for p := 0; p <= len(s); p++ {
			r = append(r, vpos{t, p})
		}
	}
	return r
}()

// exhaustive single-byte substitution / insertion / truncation of valid templates x all flags
func runValidByte(c *core.Case) {
	vp := validPositions[c.Index]
	tpl := validTemplates[vp.t]
	c.Journal("valid-byte-sweep")
	var inputs []string
	for v := 0; v < 256; v++ {
		if vp.p < len(tpl) {
			b := []byte(tpl)
			b[vp.p] = byte(v)
			inputs = append(inputs, string(b))
		}
		inputs = append(inputs, tpl[:vp.p]+string([]byte{byte(v)})+tpl[vp.p:])
	}
	inputs = append(inputs, tpl[:vp.p])
	if vp.p < len(tpl) {
		inputs = append(inputs, tpl[:vp.p]+tpl[vp.p+1:])
	}
	checkValid(c, "valid-byte-sweep", inputs)
	c.Sample(len(tpl), map[string]any{"sub": "valid-byte-sweep", "template": tpl, "position": vp.p, "inputs": len(inputs), "flags": 64})
}

func init() {
	core.Register(&core.Monitor{
		Prop:    "C18",
		Rule:    "Parse is compared with time.Parse(time.RFC3339Nano) (same err==nil, Equal instants, same zone offset, UTC location for a Z suffix) on: date-sweep (one case per year 0000-9999: months 00-13 x days 00-32 at 2-4 times of day), time-sweep (hours 00-24 x minutes 00-60 x seconds 00-61 x fraction lengths 0-10 on 4 dates), byte-sweep (every byte value substituted and inserted at every position of 13 templates, plus deletion/truncation), pair-sweep (all 256x256 byte pairs at each pair of the five separator positions), generated (grammar strings with out-of-range fields, lenient forms and 0-2 byte mutations; distinct by string, non-trivial when >= 10 bytes). Valid is compared with a recogniser transcribed from the stated grammar for all 64 values of the flag word on generated strings and on every single-byte substitution/insertion/truncation of 8 templates; the Mallocs counter must not move across a block of Valid calls.",
		Trusted: []string{"time.Parse of go1.23.5 (the real function is the oracle; no model of it is written)", "refValid in mon/c18: transcription of the grammar in the statement with the flag mapping of the flag documentation"},
		Subs: []core.Sub{
			{Name: "date-sweep", N: core.Const(10000, 10000), Run: runDate},
			{Name: "time-sweep", N: core.Const(100, 100), Run: runTime},
			{Name: "byte-sweep", N: func(core.Tier) int { return len(bytePositions) }, Run: runByte},
			{Name: "pair-sweep", N: core.Const(2560, 2560), Run: runPair},
			{Name: "generated", N: core.Const(30000, 1000000), Run: runGen},
			{Name: "valid-generated", N: core.Const(6000, 200000), Run: runValidGen},
			{Name: "valid-byte-sweep", N: func(core.Tier) int { return len(validPositions) }, Run: runValidByte},
		},
	})
}
