// Package pwire works on protobuf wire bytes with the reference scanner
// (google.golang.org/protobuf/encoding/protowire): field boundaries, unknown-field
// insertion, hostile mutations, legal re-encodings.
package pwire

import (
	"reflect"
	"strconv"
	"strings"

	"google.golang.org/protobuf/encoding/protowire"
	"verifharness/core"
)

type Field struct {
	Num      int
	Typ      int // wire type
	Start    int // offset of the tag
	ValStart int // offset of the value (after tag and, for type 2, after the length)
	End      int
}

// Fields splits a message at top level; ok is false if b is not well formed.
func Fields(b []byte) (fs []Field, ok bool) {
	off := 0
	for off < len(b) {
		num, typ, n := protowire.ConsumeTag(b[off:])
		if n < 0 {
			return fs, false
		}
		f := Field{Num: int(num), Typ: int(typ), Start: off}
		m := protowire.ConsumeFieldValue(num, typ, b[off+n:])
		if m < 0 {
			return fs, false
		}
		f.ValStart = off + n
		if typ == protowire.BytesType {
			_, ln := protowire.ConsumeVarint(b[off+n:])
			f.ValStart += ln
		}
		f.End = off + n + m
		fs = append(fs, f)
		off = f.End
	}
	return fs, true
}

// FieldInfo is how the package numbers and types the fields of a Go struct.
type FieldInfo struct {
	Number int
	Type   reflect.Type
	Wire   string // wire word of the tag ("" when untagged)
	Name   string
	Index  int
}

// FieldsOf replicates the numbering rule of proto.structCodecOf: exported fields are
// numbered by position (1-based, counting exported fields only); a protobuf tag overrides the number.
func FieldsOf(t reflect.Type) []FieldInfo {
	var out []FieldInfo
	number := 1
	for i := 0; i < t.NumField(); i++ {
		f := t.Field(i)
		if f.PkgPath != "" {
			continue
		}
		fi := FieldInfo{Number: number, Type: f.Type, Name: f.Name, Index: i}
		if tag, ok := f.Tag.Lookup("protobuf"); ok {
			parts := strings.Split(tag, ",")
			if len(parts) >= 2 {
				if n, err := strconv.Atoi(parts[1]); err == nil {
					switch parts[0] {
					case "varint", "bytes", "fixed32", "fixed64", "zigzag32", "zigzag64":
						fi.Number = n
						fi.Wire = parts[0]
					}
				}
			}
		}
		out = append(out, fi)
		number++
	}
	return out
}

func baseType(t reflect.Type) reflect.Type {
	for t.Kind() == reflect.Pointer {
		t = t.Elem()
	}
	return t
}

// isPlainMessage: a struct handled field by field by the package (not a custom Message type).
func isPlainMessage(t reflect.Type, custom func(reflect.Type) bool) bool {
	t = baseType(t)
	return t.Kind() == reflect.Struct && !custom(t)
}

// UnknownField renders a well-formed field with the given number and a random wire type / payload.
func UnknownField(r *core.Rand, num int) []byte {
	var b []byte
	switch r.Intn(5) {
	case 0:
		b = protowire.AppendTag(b, protowire.Number(num), protowire.VarintType)
		b = protowire.AppendVarint(b, r.Uint64B())
	case 1:
		b = protowire.AppendTag(b, protowire.Number(num), protowire.Fixed64Type)
		b = protowire.AppendFixed64(b, r.Uint64())
	case 2:
		b = protowire.AppendTag(b, protowire.Number(num), protowire.Fixed32Type)
		b = protowire.AppendFixed32(b, uint32(r.Uint64()))
	case 3:
		b = protowire.AppendTag(b, protowire.Number(num), protowire.BytesType)
		b = protowire.AppendBytes(b, r.Bytes(r.Intn(40)))
	default: // a nested message as payload
		b = protowire.AppendTag(b, protowire.Number(num), protowire.BytesType)
		inner := UnknownField(r, 1+r.Intn(30))
		inner = append(inner, UnknownField(r, 1+r.Intn(3000))...)
		b = protowire.AppendBytes(b, inner)
	}
	return b
}

// unknownNumber picks a field number the message type does not declare.
func unknownNumber(r *core.Rand, declared map[int]bool) int {
	pool := []int{1, 2, 3, 15, 16, 17, 100, 2047, 2048, 18999, 20000, 65535, 65536, 65537, 1<<29 - 1}
	for tries := 0; tries < 50; tries++ {
		n := pool[r.Intn(len(pool))]
		if r.Bool() {
			n = 1 + r.Intn(70000)
		}
		if !declared[n] && !(n >= 19000 && n <= 19999) {
			return n
		}
	}
	return 536870000
}

// InsertUnknown returns b with unknown fields inserted at field boundaries of the message of
// Go type t, recursively inside embedded messages and map entries.  count receives the number of insertions.
func InsertUnknown(r *core.Rand, b []byte, t reflect.Type, custom func(reflect.Type) bool, prob int, count *int) []byte {
	t = baseType(t)
	fs, ok := Fields(b)
	if !ok {
		return b
	}
	declared := map[int]bool{}
	types := map[int]reflect.Type{}
	if t.Kind() == reflect.Struct {
		for _, fi := range FieldsOf(t) {
			declared[fi.Number] = true
			types[fi.Number] = fi.Type
		}
	}
	var out []byte
	ins := func() {
		if r.Chance(prob, 100) {
			out = append(out, UnknownField(r, unknownNumber(r, declared))...)
			*count++
		}
	}
	for _, f := range fs {
		ins()
		ft, known := types[f.Num]
		payload := b[f.ValStart:f.End]
		if known && f.Typ == int(protowire.BytesType) {
			bt := baseType(ft)
			var inner []byte
			switch {
			case bt.Kind() == reflect.Struct && isPlainMessage(bt, custom):
				inner = InsertUnknown(r, payload, bt, custom, prob, count)
			case bt.Kind() == reflect.Slice && bt.Elem().Kind() != reflect.Uint8 && isPlainMessage(bt.Elem(), custom):
				inner = InsertUnknown(r, payload, bt.Elem(), custom, prob, count)
			case bt.Kind() == reflect.Map && len(payload) == 0:
				// the package writes an empty entry as its marker for an empty map and reads it as
				// "no entry"; that convention is C12's subject, nothing is inserted into it here
			case bt.Kind() == reflect.Map:
				entry := reflect.StructOf([]reflect.StructField{{Name: "Key", Type: bt.Key()}, {Name: "Elem", Type: bt.Elem()}})
				inner = InsertUnknown(r, payload, entry, custom, prob, count)
			}
			if inner != nil {
				out = protowire.AppendTag(out, protowire.Number(f.Num), protowire.BytesType)
				out = protowire.AppendBytes(out, inner)
				continue
			}
		}
		out = append(out, b[f.Start:f.End]...)
	}
	ins()
	return out
}

// Mutate applies one hostile mutation to a (valid) encoding.
func Mutate(r *core.Rand, b []byte) []byte {
	out := append([]byte(nil), b...)
	if len(out) == 0 {
		return r.Bytes(r.Intn(8))
	}
	fs, _ := Fields(out)
	switch r.Intn(9) {
	case 0: // truncate
		return out[:r.Intn(len(out))]
	case 1: // flip a bit
		out[r.Intn(len(out))] ^= 1 << uint(r.Intn(8))
	case 2: // replace a length / varint with a hostile value
		if len(fs) > 0 {
			f := fs[r.Intn(len(fs))]
			tagLen := 0
			_, _, tagLen = protowire.ConsumeTag(out[f.Start:])
			if f.Typ == int(protowire.BytesType) || f.Typ == int(protowire.VarintType) {
				_, ln := protowire.ConsumeVarint(out[f.Start+tagLen:])
				if ln > 0 {
					cur := f.End - f.ValStart
					vals := []uint64{0, uint64(cur) + 1, uint64(cur) - 1, 1<<31 - 1, 1<<32 - 1, 1<<63 - 1, 1 << 63, ^uint64(0), uint64(len(out)), uint64(len(out) + 1)}
					nv := protowire.AppendVarint(nil, vals[r.Intn(len(vals))])
					res := append([]byte(nil), out[:f.Start+tagLen]...)
					res = append(res, nv...)
					return append(res, out[f.Start+tagLen+ln:]...)
				}
			}
		}
	case 3: // over-long / non-terminated varint
		p := r.Intn(len(out))
		ext := []byte{0x80, 0x80, 0x80, 0x80, 0x80, 0x80, 0x80, 0x80, 0x80, 0x80, 0x80, 0x01}
		k := r.Range(1, len(ext))
		res := append([]byte(nil), out[:p]...)
		res = append(res, ext[len(ext)-k:]...)
		return append(res, out[p:]...)
	case 4: // swap the wire type of a tag
		if len(fs) > 0 {
			f := fs[r.Intn(len(fs))]
			out[f.Start] = out[f.Start]&^7 | byte(r.Intn(8))
		}
	case 5: // insert random bytes
		p := r.Intn(len(out) + 1)
		res := append([]byte(nil), out[:p]...)
		res = append(res, r.Bytes(r.Range(1, 6))...)
		return append(res, out[p:]...)
	case 6: // delete a span
		p := r.Intn(len(out))
		q := p + r.Intn(len(out)-p+1)
		return append(out[:p], out[q:]...)
	case 7: // duplicate a field
		if len(fs) > 0 {
			f := fs[r.Intn(len(fs))]
			return append(out, b[f.Start:f.End]...)
		}
	default:
		return r.Bytes(r.Intn(40))
	}
	return out
}

func isZigZag(t reflect.Type, num int) bool {
	if t.Kind() != reflect.Struct {
		return false
	}
	for _, fi := range FieldsOf(t) {
		if fi.Number == num {
			return fi.Wire == "zigzag32" || fi.Wire == "zigzag64"
		}
	}
	return false
}

// nonMinimalVarint encodes v with extra continuation bytes (still a legal varint of <= 10 bytes).
func nonMinimalVarint(r *core.Rand, v uint64) []byte {
	b := protowire.AppendVarint(nil, v)
	if len(b) >= 10 || !r.Chance(1, 3) {
		return b
	}
	extra := r.Range(1, 10-len(b))
	b[len(b)-1] |= 0x80
	for i := 0; i < extra-1; i++ {
		b = append(b, 0x80)
	}
	return append(b, 0x00)
}

// Reencode rewrites a valid encoding of a message of Go type t into another legal encoding of
// the same content: fields in a different order (order within one field number preserved),
// non-minimal varints for tags, lengths and values, an overridden earlier occurrence of singular
// scalar fields, singular embedded messages split into two occurrences, map entries with the
// value before the key; recursively.  stats counts what was applied.
func Reencode(r *core.Rand, b []byte, t reflect.Type, custom func(reflect.Type) bool, stats map[string]int) []byte {
	t = baseType(t)
	fs, ok := Fields(b)
	if !ok {
		return b
	}
	types := map[int]reflect.Type{}
	if t.Kind() == reflect.Struct {
		for _, fi := range FieldsOf(t) {
			types[fi.Number] = fi.Type
		}
	}
	type piece struct {
		num int
		raw []byte
	}
	var pieces []piece
	omittedOne := false
	isEntry := t.Kind() == reflect.Struct && t.NumField() == 2 && t.Field(0).Name == "Key" && t.Field(1).Name == "Elem" && t.Name() == ""
	emit := func(num int, typ protowire.Type, payload []byte) []byte {
		var out []byte
		out = append(out, nonMinimalVarint(r, protowire.EncodeTag(protowire.Number(num), typ))...)
		switch typ {
		case protowire.VarintType:
			v, _ := protowire.ConsumeVarint(payload)
			out = append(out, nonMinimalVarint(r, v)...)
		case protowire.BytesType:
			out = append(out, nonMinimalVarint(r, uint64(len(payload)))...)
			out = append(out, payload...)
		default:
			out = append(out, payload...)
		}
		return out
	}
	for _, f := range fs {
		ft, known := types[f.Num]
		typ := protowire.Type(f.Typ)
		payload := b[f.ValStart:f.End]
		if typ == protowire.VarintType || typ == protowire.Fixed32Type || typ == protowire.Fixed64Type {
			_, _, tn := protowire.ConsumeTag(b[f.Start:])
			payload = b[f.Start+tn : f.End]
		}
		if !known {
			pieces = append(pieces, piece{f.Num, emit(f.Num, typ, payload)})
			continue
		}
		// in a map entry a key or value holding the zero value may be left out altogether
		// (never both: an entry without any member is what this package writes as its marker for
		// an empty map, see the known finding of C12)
		if isEntry && !omittedOne && len(fs) == 2 && r.Chance(1, 2) {
			zero := true
			for _, c := range payload {
				if c != 0 {
					zero = false
				}
			}
			if typ == protowire.BytesType {
				// (not for message values: an absent one is nil, an empty one a pointer to an
				// empty message - the distinction of C03's known finding)
				zero = len(payload) == 0 && baseType(ft).Kind() != reflect.Struct
			}
			if zero {
				if stats != nil {
					stats["map-entry-zero-member-omitted"]++
				}
				omittedOne = true
				continue
			}
		}
		bt := baseType(ft)
		singular := !(bt.Kind() == reflect.Map || (bt.Kind() == reflect.Slice && bt.Elem().Kind() != reflect.Uint8))
		switch {
		case typ == protowire.BytesType && bt.Kind() == reflect.Struct && isPlainMessage(bt, custom):
			inner := Reencode(r, payload, bt, custom, stats)
			ifs, iok := Fields(inner)
			if singular && iok && len(ifs) >= 2 && r.Chance(1, 3) {
				cut := ifs[r.Range(1, len(ifs)-1)].Start
				pieces = append(pieces, piece{f.Num, emit(f.Num, typ, inner[:cut])}, piece{f.Num, emit(f.Num, typ, inner[cut:])})
				stats["split-message"]++
			} else {
				pieces = append(pieces, piece{f.Num, emit(f.Num, typ, inner)})
			}
		case typ == protowire.BytesType && bt.Kind() == reflect.Slice && bt.Elem().Kind() != reflect.Uint8 && isPlainMessage(bt.Elem(), custom):
			pieces = append(pieces, piece{f.Num, emit(f.Num, typ, Reencode(r, payload, bt.Elem(), custom, stats))})
		case typ == protowire.BytesType && bt.Kind() == reflect.Map && len(payload) > 0:
			entry := reflect.StructOf([]reflect.StructField{{Name: "Key", Type: bt.Key()}, {Name: "Elem", Type: bt.Elem()}})
			inner := Reencode(r, payload, entry, custom, stats)
			pieces = append(pieces, piece{f.Num, emit(f.Num, typ, inner)})
		default:
			if singular && r.Chance(1, 5) && typ != protowire.BytesType {
				// an earlier occurrence with another value: the last one wins
				var other []byte
				switch typ {
				case protowire.VarintType:
					// a value that is itself a legal encoding for the field's type
					x := r.Uint64B()
					switch bt.Kind() {
					case reflect.Bool:
						x &= 1
					case reflect.Uint32:
						x = uint64(uint32(x))
					case reflect.Int32:
						if ztag := types[f.Num]; ztag != nil && isZigZag(t, f.Num) {
							x = uint64(uint32(x))
						} else {
							x = uint64(int64(int32(x)))
						}
					}
					other = protowire.AppendVarint(nil, x)
				case protowire.Fixed32Type:
					other = protowire.AppendFixed32(nil, uint32(r.Uint64()))
				case protowire.Fixed64Type:
					other = protowire.AppendFixed64(nil, r.Uint64())
				}
				pieces = append(pieces, piece{f.Num, emit(f.Num, typ, other)})
				stats["overridden-scalar"]++
			}
			pieces = append(pieces, piece{f.Num, emit(f.Num, typ, payload)})
		}
	}
	// random interleaving that keeps the relative order of pieces with the same number
	if len(pieces) > 1 && r.Chance(2, 3) {
		groups := map[int][]piece{}
		var order []int
		for _, p := range pieces {
			if _, ok := groups[p.num]; !ok {
				order = append(order, p.num)
			}
			groups[p.num] = append(groups[p.num], p)
		}
		pieces = pieces[:0]
		for len(order) > 0 {
			i := r.Intn(len(order))
			n := order[i]
			pieces = append(pieces, groups[n][0])
			groups[n] = groups[n][1:]
			if len(groups[n]) == 0 {
				order = append(order[:i], order[i+1:]...)
			}
		}
		stats["reordered"]++
	}
	var out []byte
	for _, p := range pieces {
		out = append(out, p.raw...)
	}
	if len(out) != len(b) {
		stats["non-minimal-varints"]++
	}
	return out
}
