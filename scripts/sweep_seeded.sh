#!/bin/bash
# Runs every seeded change against its property's quick check (scratch worktree, never /repo) and
# prints one line per mutant: CAUGHT (exit 1 with a VIOLATION line) or MISSED.
cd /verif
for d in seeded/*/; do
  n=$(basename $d); p=${n%-*}
  out=$(scripts/mutant_scratch.sh $d/patch.diff $p ${1:-quick} 2>&1)
  rc=$(echo "$out" | grep -a -o 'mutant-result.*exit=[0-9]*' | grep -o '[0-9]*$')
  nv=$(echo "$out" | grep -a -c '^VIOLATION')
  if [ "$rc" = "1" ] && [ "$nv" -gt 0 ]; then echo "CAUGHT $n ($nv violation keys)"; else echo "MISSED $n rc=$rc"; fi
done
