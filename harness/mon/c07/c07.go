// Package c07: proto decoding is total, bounded in memory, and ignores unknown fields.
package c07

import (
	"bytes"
	"fmt"
	"reflect"
	"runtime"

	"github.com/segmentio/encoding/proto"
	"google.golang.org/protobuf/encoding/protowire"
	"verifharness/core"
	"verifharness/gen/ptypes"
	"verifharness/gen/pwire"
	"verifharness/mon/c03"
)

func isCustom(t reflect.Type) bool {
	return ptypes.IsCustom(t)
}

// maxElem: the largest element size reachable from t (what one repeated element or map entry can cost).
func maxElem(t reflect.Type, seen map[reflect.Type]bool) uintptr {
	if seen[t] {
		return 0
	}
	seen[t] = true
	m := t.Size()
	switch t.Kind() {
	case reflect.Pointer, reflect.Slice, reflect.Array:
		if e := maxElem(t.Elem(), seen); e > m {
			m = e
		}
	case reflect.Map:
		if e := maxElem(t.Key(), seen) + maxElem(t.Elem(), seen) + 64; e > m {
			m = e
		}
	case reflect.Struct:
		for i := 0; i < t.NumField(); i++ {
			if e := maxElem(t.Field(i).Type, seen); e > m {
				m = e
			}
		}
	}
	return m
}

func tr(b []byte) []byte {
	if len(b) > 80 {
		return b[:80]
	}
	return b
}

// decodeTotal runs every decoding entry point on in; panics are violations, the allocation of
// Unmarshal is bounded.
func decodeTotal(c *core.Case, family string, t reflect.Type, in []byte) (err error, out reflect.Value) {
	w := map[string]any{"type": ptypes.TypeString(t), "input_hex": fmt.Sprintf("%x", tr(in)), "input_len": len(in)}
	class := family + "|" + c03.Shape(t)
	out = reflect.New(t)
	// exact capacity: a read behind the input is a slice-bounds panic, not a silent success
	buf := append(make([]byte, 0, len(in)), in...)
	in = append(make([]byte, 0, len(in)), in...)
	var ms0, ms1 runtime.MemStats
	c.Journal(class + "|Unmarshal")
	// first call: constructs and caches the codec of the type (not charged to the input)
	sig, stk := core.Guard(func() { err = proto.Unmarshal(buf, reflect.New(t).Interface()) })
	if sig == "" {
		runtime.ReadMemStats(&ms0)
		sig, stk = core.Guard(func() { err = proto.Unmarshal(buf, out.Interface()) })
		runtime.ReadMemStats(&ms1)
	}
	if sig != "" {
		c.Violation(class+"|Unmarshal", sig, fmt.Sprintf("Unmarshal(%x) panicked: %s", tr(in), stk), w)
		return fmt.Errorf("panic"), out
	}
	alloc := ms1.TotalAlloc - ms0.TotalAlloc
	bound := uint64(64<<10) + uint64(8*maxElem(t, map[reflect.Type]bool{})+512)*uint64(len(in))
	if alloc > bound {
		c.Violation(class+"|Unmarshal", "allocation-above-bound", fmt.Sprintf("Unmarshal of %d input bytes allocated %d bytes (bound %d): %x", len(in), alloc, bound, tr(in)), w)
	}
	if !bytes.Equal(buf, in) {
		c.Violation(class+"|Unmarshal", "input-modified", fmt.Sprintf("Unmarshal modified its input %x", tr(in)), w)
	}
	c.Count("calls.Unmarshal", 1)
	if h := core.Mix(core.HashBytes(in), core.HashString(t.String())); h%3 == 0 && t.Kind() == reflect.Struct {
		decodePrefilled(c, class, t, in, h, w)
	}
	// Parse / Scan and the reference scanner
	c.Journal(class + "|Scan")
	type fld struct {
		n int
		t int
		v []byte
	}
	var got []fld
	var serr error
	if sig, stk := core.Guard(func() {
		serr = proto.Scan(in, func(f proto.FieldNumber, wt proto.WireType, v proto.RawValue) (bool, error) {
			got = append(got, fld{int(f), int(wt), v})
			switch wt {
			case proto.Varint:
				if x, n := protowire.ConsumeVarint(v); n != len(v) || x != v.Varint() {
					c.Violation(class+"|RawValue.Varint", "value-diff", fmt.Sprintf("RawValue(%x).Varint() = %d, reference %d", []byte(v), v.Varint(), x), w)
				}
			case proto.Fixed32:
				if x, n := protowire.ConsumeFixed32(v); n != len(v) || x != v.Fixed32() {
					c.Violation(class+"|RawValue.Fixed32", "value-diff", fmt.Sprintf("RawValue(%x).Fixed32() = %d, reference %d", []byte(v), v.Fixed32(), x), w)
				}
			case proto.Fixed64:
				if x, n := protowire.ConsumeFixed64(v); n != len(v) || x != v.Fixed64() {
					c.Violation(class+"|RawValue.Fixed64", "value-diff", fmt.Sprintf("RawValue(%x).Fixed64() = %d, reference %d", []byte(v), v.Fixed64(), x), w)
				}
			}
			return true, nil
		})
	}); sig != "" {
		c.Violation(class+"|Scan", sig, fmt.Sprintf("Scan(%x) panicked: %s", tr(in), stk), w)
		return err, out
	}
	c.Count("calls.Scan", 1)
	if err == nil && family != "bare-target" { // (a bare value is not a message: nothing to enumerate)
		// Scan must enumerate exactly the top-level fields of an input Unmarshal accepts
		ref, ok := pwire.Fields(in)
		same := ok && serr == nil && len(ref) == len(got)
		for i := 0; same && i < len(ref); i++ {
			f := ref[i]
			if f.Num != got[i].n || f.Typ != got[i].t || !bytes.Equal(in[f.ValStart:f.End], got[i].v) {
				same = false
			}
		}
		if !same && ok {
			c.Violation(class+"|Scan", "scan!=reference", fmt.Sprintf("Unmarshal accepts %x; Scan enumerates %d fields (err %v), the reference scanner %d", tr(in), len(got), serr, len(ref)), w)
		}
		if !ok {
			c.Count("accepted-but-reference-rejects", 1) // e.g. field number 0 or groups: noted, not part of the statement
			if serr != nil {
				// whatever the reference thinks, Scan must enumerate what Unmarshal consumed
				c.Violation(class+"|Scan", "unmarshal-accepts-scan-rejects", fmt.Sprintf("Unmarshal accepts %x but Scan fails on it: %v", tr(in), serr), w)
			}
		}
	}
	return err, out
}

// ---- pre-filled targets -------------------------------------------------------------------------

type sliceGuard struct {
	path          string
	region, saved reflect.Value
}

// clipSlices replaces every non-empty slice reachable from v by one whose capacity is used up and
// whose backing array continues with four guard elements.
func clipSlices(f *ptypes.Filler, v reflect.Value, path string, guards *[]sliceGuard, depth int) {
	if depth > 3 {
		return
	}
	switch v.Kind() {
	case reflect.Pointer:
		if !v.IsNil() {
			clipSlices(f, v.Elem(), path+"*", guards, depth+1)
		}
	case reflect.Struct:
		if isCustom(v.Type()) {
			return
		}
		for i := 0; i < v.NumField(); i++ {
			if v.Type().Field(i).IsExported() {
				clipSlices(f, v.Field(i), path+"."+v.Type().Field(i).Name, guards, depth+1)
			}
		}
	case reflect.Slice:
		n := v.Len()
		if n == 0 || !v.CanSet() {
			return
		}
		for i := 0; i < n; i++ {
			clipSlices(f, v.Index(i), fmt.Sprintf("%s[%d]", path, i), guards, depth+1)
		}
		big := reflect.MakeSlice(v.Type(), n+4, n+4)
		reflect.Copy(big, v)
		for i := n; i < n+4; i++ {
			f.Fill(big.Index(i), 3)
		}
		saved := reflect.MakeSlice(v.Type(), 4, 4)
		reflect.Copy(saved, big.Slice(n, n+4))
		*guards = append(*guards, sliceGuard{path, big.Slice(n, n+4), saved})
		v.Set(big.Slice3(0, n, n))
	}
}

// saneSlices: no slice reachable from v is longer than its capacity.
func saneSlices(v reflect.Value, path string, depth int) string {
	if depth > 4 {
		return ""
	}
	switch v.Kind() {
	case reflect.Pointer:
		if !v.IsNil() {
			return saneSlices(v.Elem(), path+"*", depth+1)
		}
	case reflect.Struct:
		for i := 0; i < v.NumField(); i++ {
			if v.Type().Field(i).IsExported() {
				if d := saneSlices(v.Field(i), path+"."+v.Type().Field(i).Name, depth+1); d != "" {
					return d
				}
			}
		}
	case reflect.Slice:
		hdr := (*[3]uintptr)(v.Addr().UnsafePointer())
		if hdr[1] > hdr[2] {
			return fmt.Sprintf("%s: len %d > cap %d", path, hdr[1], hdr[2])
		}
		for i := 0; i < v.Len() && i < 8; i++ {
			if d := saneSlices(v.Index(i), fmt.Sprintf("%s[%d]", path, i), depth+1); d != "" {
				return d
			}
		}
	}
	return ""
}

// decodePrefilled: Unmarshal into a target that already holds a value whose slices are full; the
// decoder appends to them, and may neither fault nor write behind their capacity.
func decodePrefilled(c *core.Case, class string, t reflect.Type, in []byte, seed uint64, w map[string]any) {
	f := &ptypes.Filler{R: core.NewRand(seed), NoNaN: true}
	if seed%2 == 0 {
		f.MaxLen = 1 // the smallest capacities: 1 (and whatever growth makes of it)
	}
	tgt := f.NewValue(t)
	var guards []sliceGuard
	clipSlices(f, tgt, "", &guards, 0)
	c.Journal(class + "|Unmarshal-prefilled")
	var err error
	sig, stk := core.Guard(func() { err = proto.Unmarshal(append(make([]byte, 0, len(in)), in...), tgt.Addr().Interface()) })
	if sig != "" {
		c.Violation(class+"|Unmarshal-prefilled", sig, fmt.Sprintf("Unmarshal(%x) into a target that already holds a value panicked: %s", tr(in), stk), w)
		return
	}
	_ = err
	if d := saneSlices(tgt, "", 0); d != "" {
		c.Violation(class+"|Unmarshal-prefilled", "slice-len-above-cap", fmt.Sprintf("after Unmarshal(%x) into a target whose slices were full: %s", tr(in), d), w)
		return
	}
	for _, g := range guards {
		if !reflect.DeepEqual(g.region.Interface(), g.saved.Interface()) {
			c.Violation(class+"|Unmarshal-prefilled", "wrote-behind-capacity", fmt.Sprintf("Unmarshal(%x) changed the elements behind the capacity of %s: %v, were %v", tr(in), g.path, g.region.Interface(), g.saved.Interface()), w)
			return
		}
	}
	c.Count("calls.Unmarshal-prefilled", 1)
	c.Count("prefilled.guarded-slices", len(guards))
}

func pickType(c *core.Case) reflect.Type {
	if c.Index%13 == 5 { // declared recursive and mutually recursive message types
		return ptypes.RecLibrary[c.Rng.Intn(len(ptypes.RecLibrary))]
	}
	cfg := ptypes.DefaultCfg
	cfg.BigNumbers = c.Index%5 == 0
	cfg.MaxFields = 7
	return ptypes.New(c.Rng.Fork(1), cfg).Message(0)
}

// prefixes: every prefix of a valid encoding
func runPrefixes(c *core.Case) {
	t := pickType(c)
	f := &ptypes.Filler{R: c.Rng.Fork(2)}
	v := f.NewValue(t)
	b, err := proto.Marshal(v.Interface())
	if err != nil || len(b) == 0 {
		return
	}
	if len(b) > 400 {
		b = b[:400]
	}
	for cut := 0; cut <= len(b); cut++ {
		decodeTotal(c, "prefix", t, b[:cut])
	}
	c.Count("prefixes", len(b)+1)
	c.Distinct(core.Mix(core.HashString(t.String()), core.HashBytes(b)), len(b) > 1)
	c.Sample(len(b)/50, map[string]any{"sub": "prefixes", "type": ptypes.TypeString(t), "encoding_len": len(b), "encoding_hex": fmt.Sprintf("%x", tr(b))})
}

func runMutated(c *core.Case) {
	t := pickType(c)
	f := &ptypes.Filler{R: c.Rng.Fork(2)}
	b, err := proto.Marshal(f.NewValue(t).Interface())
	if err != nil {
		return
	}
	for k := 0; k < 12; k++ {
		in := pwire.Mutate(c.Rng, b)
		if c.Rng.Chance(1, 3) {
			in = pwire.Mutate(c.Rng, in)
		}
		decodeTotal(c, "mutated", t, in)
		c.Distinct(core.Mix(core.HashString(t.String()), core.HashBytes(in)), len(in) > 0)
		if k == 0 {
			c.Sample(0, map[string]any{"sub": "mutated", "type": ptypes.TypeString(t), "input_hex": fmt.Sprintf("%x", tr(in))})
		}
	}
}

// length bombs: a declared length / count far beyond the available bytes, for every length-prefixed field kind
func runBombs(c *core.Case) {
	t := pickType(c)
	c.Journal("length-bomb")
	for _, fi := range pwire.FieldsOf(t) {
		for _, l := range []uint64{1 << 20, 1<<31 - 1, 1 << 31, 1<<32 - 1, 1 << 40, 1<<63 - 1, 1 << 63, ^uint64(0)} {
			var in []byte
			in = protowire.AppendTag(in, protowire.Number(fi.Number), protowire.BytesType)
			in = protowire.AppendVarint(in, l)
			in = append(in, 1, 2, 3)
			decodeTotal(c, "length-bomb", t, in)
		}
	}
	c.Distinct(core.HashString("bomb"+t.String()), true)
}

// unknown fields inserted at every boundary do not change the decoded value
func runUnknown(c *core.Case) {
	t := pickType(c)
	f := &ptypes.Filler{R: c.Rng.Fork(2)}
	v := f.NewValue(t)
	b, err := proto.Marshal(v.Interface())
	if err != nil {
		return
	}
	class := "unknown-fields|" + c03.Shape(t)
	c.Journal(class)
	base := reflect.New(t)
	if e := proto.Unmarshal(append([]byte(nil), b...), base.Interface()); e != nil {
		c.Count("skipped.base-undecodable(C03)", 1)
		return
	}
	for k := 0; k < 4; k++ {
		n := 0
		aug := pwire.InsertUnknown(c.Rng, b, t, isCustom, []int{100, 50, 20, 100}[k], &n)
		if n == 0 {
			continue
		}
		e, out := decodeTotal(c, "unknown-fields", t, aug)
		w := map[string]any{"type": ptypes.TypeString(t), "original_hex": fmt.Sprintf("%x", tr(b)), "augmented_hex": fmt.Sprintf("%x", tr(aug)), "inserted": n}
		if e != nil {
			c.Violation(class, "rejected", fmt.Sprintf("Unmarshal rejects the message once %d well-formed unknown fields are inserted: %v | original %x | augmented %x", n, e, tr(b), tr(aug)), w)
			return
		}
		ok1, d1 := ptypes.Equal(base.Elem(), out.Elem())
		ok2, _ := ptypes.Equal(out.Elem(), base.Elem())
		if !ok1 || !ok2 {
			c.Violation(class, "value-changed", fmt.Sprintf("the decoded value changes when %d unknown fields are inserted: %s | original %x | augmented %x", n, d1, tr(b), tr(aug)), w)
			return
		}
		c.Count("unknown.inserted", n)
	}
	c.Distinct(core.Mix(core.HashString(t.String()), core.HashBytes(b)), len(b) > 0)
	c.Sample(0, map[string]any{"sub": "unknown-fields", "type": ptypes.TypeString(t), "encoding_len": len(b)})
}

func runRandom(c *core.Case) {
	t := pickType(c)
	for k := 0; k < 16; k++ {
		in := c.Rng.Bytes(c.Rng.Intn(48))
		if c.Rng.Chance(1, 3) {
			// tag-shaped noise: valid tags of declared fields followed by noise
			fis := pwire.FieldsOf(t)
			if len(fis) > 0 {
				fi := fis[c.Rng.Intn(len(fis))]
				in = protowire.AppendTag(nil, protowire.Number(fi.Number), protowire.Type(c.Rng.Intn(8)))
				in = append(in, c.Rng.Bytes(c.Rng.Intn(20))...)
			}
		}
		decodeTotal(c, "random", t, in)
		c.Distinct(core.Mix(core.HashString(t.String()), core.HashBytes(in)), len(in) > 0)
	}
}

// bare targets: Unmarshal into a value that is not a message (bytes, string, byte array, number,
// custom types): no struct decoder has validated the window before the type's own decoder runs.
var bareTargets = []reflect.Type{
	reflect.TypeOf([]byte(nil)), reflect.TypeOf(""), reflect.TypeOf([4]byte{}), reflect.TypeOf([16]byte{}), reflect.TypeOf(int64(0)), reflect.TypeOf(uint32(0)), reflect.TypeOf(false),
	reflect.TypeOf(float64(0)), reflect.TypeOf(float32(0)), ptypes.TMsg, ptypes.TGogo, ptypes.TGogoV, ptypes.TRaw, reflect.TypeOf(int32(0)), reflect.TypeOf(uint64(0)), reflect.TypeOf(int(0)),
}

func runBare(c *core.Case) {
	r := c.Rng
	t := bareTargets[c.Index%len(bareTargets)]
	if r.Chance(1, 4) {
		t = reflect.PointerTo(t)
	}
	c.Journal("bare-target")
	var in []byte
	switch r.Intn(5) {
	case 0: // a length far beyond the input
		in = protowire.AppendVarint(nil, []uint64{1 << 20, 1 << 26, 1<<31 - 1, 1 << 32, 1 << 40, 1 << 62, 1<<63 - 1, 1 << 63, ^uint64(0)}[r.Intn(9)])
		in = append(in, r.Bytes(r.Intn(5))...)
	case 1: // longer than a byte array target
		n := r.Range(0, 40)
		in = protowire.AppendBytes(nil, r.Bytes(n))
	case 2:
		in = r.Bytes(r.Intn(24))
	case 3:
		in = protowire.AppendVarint(nil, r.Uint64B())
	default:
		in = protowire.AppendBytes(protowire.AppendTag(nil, protowire.Number(r.Range(1, 3)), protowire.BytesType), r.Bytes(r.Intn(12)))
	}
	decodeTotal(c, "bare-target", t, in)
	c.Distinct(core.Mix(core.HashString(t.String()), core.HashBytes(in)), true)
}

func init() {
	core.Register(&core.Monitor{
		Prop:    "C07",
		Rule:    "Target types and valid encodings come from the C03 generator. Every third input is also decoded into a target that already holds a value whose slices are full (cap == len, often 1) and followed by guard elements: no panic, no slice longer than its capacity, guard elements unchanged. prefixes: every prefix of a valid encoding (cut at every byte, up to 400); mutated: 12 hostile mutations per encoding (truncation, bit flips, lengths/varints replaced by 0, len+-1, 2^31-1, 2^32-1, 2^63, 2^64-1, over-long varints, wire-type swaps, inserted noise, deleted spans, duplicated fields); length-bomb: every declared field with declared lengths from 2^20 to 2^64-1 and 3 available bytes; random: raw bytes and tag-shaped noise. bare-targets: Unmarshal into top-level values that are not messages ([]byte, string, byte arrays, numbers, custom types; also through a pointer) of huge declared lengths, over-long payloads and noise. Every thirteenth type is a declared recursive or mutually recursive message type. Each input goes through Unmarshal (allocation measured with cumulative TotalAlloc on the single-goroutine worker; bound 64 KiB + (8*largest reachable element + 512) bytes per input byte), Scan/Parse and the RawValue accessors (compared with protowire); a panic or process death is a violation; when Unmarshal accepts, Scan must enumerate the same (number, wire type, bytes) list as the reference scanner. unknown-fields: well-formed fields with undeclared numbers (wire types 0,1,2,5, also nested messages) inserted at every/half/fifth of the field boundaries of the message, recursively inside embedded messages and map entries: Unmarshal must accept and decode to the same value. Distinct by (type, input).",
		Trusted: []string{"google.golang.org/protobuf/encoding/protowire v1.25.0 as reference scanner", "runtime.MemStats.TotalAlloc for the allocation bound", "the field-numbering replica in gen/pwire.FieldsOf"},
		Subs: []core.Sub{
			{Name: "prefixes", N: core.Const(1500, 60000), Run: runPrefixes},
			{Name: "mutated", N: core.Const(6000, 300000), Run: runMutated},
			{Name: "length-bomb", N: core.Const(600, 10000), Run: runBombs},
			{Name: "unknown-fields", N: core.Const(6000, 200000), Run: runUnknown},
			{Name: "bare-targets", N: core.Const(6000, 200000), Run: runBare},
			{Name: "random", N: core.Const(3000, 100000), Run: runRandom},
		},
	})
}
