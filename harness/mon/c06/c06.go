// Package c06: no public json entry point panics, faults, exhausts the stack or hangs.
// The oracle is the supervisor: recovered panics are reported in-process, process-fatal
// errors (SIGSEGV, stack overflow, checkptr, ASan, concurrent map access) are attributed to
// the journalled case, CPU-time budget overruns are the bounded-progress form of "hangs".
package c06

import (
	"bytes"
	"fmt"
	"io"
	"reflect"
	"strings"
	"time"

	"github.com/segmentio/encoding/json"
	"verifharness/core"
	"verifharness/gen/jsondoc"
	"verifharness/gen/jtypes"
)

const canaryWord = 0xC0FFEE1234567890

// guarded allocates struct{Pre [4]uint64; V T; Post [4]uint64} and returns a pointer to V plus a checker.
func guarded(t reflect.Type) (target reflect.Value, intact func() bool) {
	var gt reflect.Type
	func() {
		defer func() { recover() }()
		gt = reflect.StructOf([]reflect.StructField{
			{Name: "Pre", Type: reflect.TypeOf([4]uint64{})},
			{Name: "V", Type: t},
			{Name: "Post", Type: reflect.TypeOf([4]uint64{})},
		})
	}()
	if gt == nil {
		return reflect.New(t), func() bool { return true }
	}
	g := reflect.New(gt).Elem()
	for i := 0; i < 4; i++ {
		g.Field(0).Index(i).SetUint(canaryWord + uint64(i))
		g.Field(2).Index(i).SetUint(canaryWord ^ uint64(i+9))
	}
	return g.Field(1).Addr(), func() bool {
		for i := 0; i < 4; i++ {
			if g.Field(0).Index(i).Uint() != canaryWord+uint64(i) || g.Field(2).Index(i).Uint() != canaryWord^uint64(i+9) {
				return false
			}
		}
		return true
	}
}

func tr(b []byte) string {
	if len(b) > 200 {
		return string(b[:200]) + "…"
	}
	return string(b)
}

// call runs f under the journal + panic guard; a recovered panic is a violation.
func call(c *core.Case, class string, witness map[string]any, f func()) {
	c.Journal(class)
	if sig, stk := core.Guard(f); sig != "" {
		c.Violation(class, sig, fmt.Sprintf("%s panicked: %s", class, stk), witness)
	}
	c.Count("calls", 1)
}

type errReader struct {
	data []byte
	pos  int
	step int
}

func (r *errReader) Read(p []byte) (int, error) {
	if r.pos >= len(r.data) {
		return 0, io.ErrUnexpectedEOF
	}
	n := r.step
	if n > len(p) {
		n = len(p)
	}
	if n > len(r.data)-r.pos {
		n = len(r.data) - r.pos
	}
	copy(p, r.data[r.pos:r.pos+n])
	r.pos += n
	return n, nil
}

func decodeAll(c *core.Case, family string, t reflect.Type, doc []byte, prefill bool) {
	w := map[string]any{"type": jtypes.TypeString(t), "doc": tr(doc), "prefilled": prefill}
	mk := func() (reflect.Value, func() bool) {
		tv, ok := guarded(t)
		if prefill {
			f := &jtypes.Filler{R: core.NewRand(uint64(len(doc)) + 7), NoNaN: true, RawValid: true, MaxLen: 4, MaxDepth: 3}
			f.Fill(tv.Elem(), 0)
		}
		return tv, ok
	}
	chk := func(class string, ok func() bool) {
		if !ok() {
			c.Violation(class, "canary-overwritten", "memory next to the decode target changed", w)
		}
	}
	tv, ok := mk()
	call(c, family+"|Unmarshal", w, func() { json.Unmarshal(append([]byte(nil), doc...), tv.Interface()) })
	chk(family+"|Unmarshal", ok)
	// what was decoded must be a value of the type: encoding it again follows every pointer
	call(c, family+"|Marshal-of-decoded", w, func() { json.Marshal(tv.Interface()) })
	flags := json.ParseFlags(c.Rng.Intn(512))
	tv, ok = mk()
	call(c, family+"|Parse", w, func() { json.Parse(append([]byte(nil), doc...), tv.Interface(), flags) })
	chk(family+"|Parse", ok)
	tv, ok = mk()
	call(c, family+"|Decoder", w, func() {
		d := json.NewDecoder(&errReader{data: doc, step: 1 + c.Rng.Intn(9)})
		if c.Rng.Bool() {
			d.UseNumber()
		}
		if c.Rng.Bool() {
			d.DisallowUnknownFields()
		}
		if c.Rng.Bool() {
			d.ZeroCopy()
		}
		for i := 0; i < 4; i++ {
			if d.Decode(tv.Interface()) != nil {
				break
			}
		}
	})
	chk(family+"|Decoder", ok)
	call(c, family+"|Valid", w, func() { json.Valid(doc) })
	call(c, family+"|Tokenizer", w, func() {
		tk := json.NewTokenizer(doc)
		for n := 0; tk.Next() && n <= len(doc)+1; n++ {
			switch {
			case tk.Delim != 0:
			case tk.Value.String():
				tk.String()
			case tk.Value.Number():
				tk.Float()
				tk.Int()
				tk.Uint()
			}
		}
	})
	// non-pointer / nil targets
	call(c, family+"|Unmarshal-bad-target", w, func() {
		json.Unmarshal(doc, nil)
		json.Unmarshal(doc, reflect.Zero(t).Interface())
		var np *int
		json.Unmarshal(doc, np)
	})
}

func pickType(c *core.Case) reflect.Type {
	if c.Index%4 == 0 {
		t := jtypes.Library[c.Rng.Intn(len(jtypes.Library))]
		switch c.Rng.Intn(6) {
		case 0:
			return reflect.SliceOf(t)
		case 1:
			return reflect.MapOf(reflect.TypeOf(""), t)
		case 2:
			return reflect.PointerTo(t)
		case 3:
			return reflect.ArrayOf(1, t)
		}
		return t
	}
	cfg := jtypes.DefaultCfg
	cfg.ErrLeaves = true
	return jtypes.New(c.Rng.Fork(1), cfg).Type(0)
}

func runDecodeFuzz(c *core.Case) {
	t := pickType(c)
	r := c.Rng
	for k := 0; k < 4; k++ {
		var doc string
		switch r.Intn(5) {
		case 0:
			doc = string(r.Bytes(r.Intn(64)))
		case 1:
			var sb strings.Builder
			for n := r.Intn(14); n > 0; n-- {
				sb.WriteString(jsondoc.Tokens[r.Intn(len(jsondoc.Tokens))])
			}
			doc = sb.String()
		case 2:
			doc = jsondoc.Valid(r, jsondoc.DefaultOpts)
			doc = doc[:r.Intn(len(doc)+1)]
		default:
			f := &jtypes.Filler{R: r.Fork(3), NoNaN: true, RawValid: true, MaxLen: 6}
			if b, err := json.Marshal(f.NewValue(t).Interface()); err == nil {
				doc = jsondoc.Mutate(r, string(b))
			} else {
				doc = jsondoc.Mutate(r, jsondoc.Valid(r, jsondoc.DefaultOpts))
			}
		}
		decodeAll(c, "decode-fuzz", t, []byte(doc), r.Chance(1, 3))
		c.Distinct(core.Mix(core.HashString(t.String()), core.HashString(doc)), len(doc) > 0)
		if k == 0 {
			c.Sample(0, map[string]any{"sub": "decode-fuzz", "type": jtypes.TypeString(t), "doc": tr([]byte(doc))})
		}
	}
}

func encodeAll(c *core.Case, family string, x any, w map[string]any) {
	call(c, family+"|Marshal", w, func() { json.Marshal(x) })
	call(c, family+"|Append", w, func() { json.Append(make([]byte, 3, 8), x, json.AppendFlags(c.Rng.Intn(8))&^json.TrustRawMessage) })
	call(c, family+"|Encoder", w, func() {
		var buf bytes.Buffer
		e := json.NewEncoder(&buf)
		e.SetIndent("", " ")
		e.Encode(x)
	})
	call(c, family+"|MarshalIndent", w, func() { json.MarshalIndent(x, ">", "\t") })
}

// maps whose values are of a non-empty interface type: their (itab, data) words are not the
// (type, data) words of an empty interface
type stringerT struct{ s string }

func (s stringerT) String() string { return s.s }

// byte-kind element types with their own (un)marshalers, by value and by pointer receiver
type byteVJ uint8

func (b byteVJ) UnmarshalJSON(x []byte) error { return nil }
func (b byteVJ) MarshalJSON() ([]byte, error) { return []byte(`7`), nil }

type byteVT uint8

func (b byteVT) UnmarshalText(x []byte) error { return nil }
func (b byteVT) MarshalText() ([]byte, error) { return []byte("t"), nil }

type bytePJ uint8

func (b *bytePJ) UnmarshalJSON(x []byte) error { *b = bytePJ(len(x)); return nil }

type bytePT uint8

func (b *bytePT) UnmarshalText(x []byte) error { *b = bytePT(len(x)); return nil }

var byteElemTargets = []func() any{
	func() any { return new([]byteVJ) }, func() any { return new([]byteVT) }, func() any { return new([]bytePJ) }, func() any { return new([]bytePT) },
	func() any { return new([2]byteVJ) }, func() any { return new([3]byteVT) }, func() any { return new(struct{ F []byteVJ }) }, func() any { return new(map[string][]byteVT) },
	func() any { return new([][]bytePJ) }, func() any { return new(*[]byteVJ) },
}

var byteElemDocs = []string{`[1,2]`, `"AQI="`, `["a","b"]`, `null`, `[]`, `{"F":[1,"x"]}`, `{"k":["a"]}`, `[[1],[2,3]]`, `[`, `"not base64!"`, `[null,{}]`}

var ifaceMaps = []func() any{
	func() any { return map[string]fmt.Stringer{"a": stringerT{"x"}, "b": time.Second, "c": nil} },
	func() any {
		return map[string]error{"e": io.EOF, "n": nil, "f": fmt.Errorf("wrapped: %w", io.ErrUnexpectedEOF)}
	},
	func() any { return map[string]json.Marshaler{"r": json.RawMessage(`{"a":1}`), "n": nil} },
	func() any { return map[string]io.Reader{"r": strings.NewReader("abc"), "n": nil} },
	func() any { return []map[string]fmt.Stringer{{"a": stringerT{"y"}}} },
	func() any { return struct{ M map[string]error }{map[string]error{"e": io.EOF}} },
}

func runEncodeValues(c *core.Case) {
	{
		x := ifaceMaps[c.Index%len(ifaceMaps)]()
		w := map[string]any{"type": fmt.Sprintf("%T", x)}
		encodeAll(c, "encode-values|map-of-non-empty-interface", x, w)
		// and as decode target: an error or a value, never a forged interface
		tv := reflect.New(reflect.TypeOf(x))
		call(c, "encode-values|map-of-non-empty-interface|Unmarshal", w, func() {
			json.Unmarshal([]byte(core.Pick(c.Rng, []string{`{"a":1,"b":"x","c":null}`, `{"e":{}}`, `[{"a":"s"}]`, `{"M":{"e":null,"f":1}}`, `null`})), tv.Interface())
		})
		call(c, "encode-values|map-of-non-empty-interface|Marshal-of-decoded", w, func() { json.Marshal(tv.Interface()) })
	}
	{
		mk := byteElemTargets[c.Index%len(byteElemTargets)]
		doc := byteElemDocs[(c.Index/len(byteElemTargets))%len(byteElemDocs)]
		tv := mk()
		w := map[string]any{"type": fmt.Sprintf("%T", tv), "doc": doc}
		call(c, "encode-values|byte-kind-elements|Unmarshal", w, func() { json.Unmarshal([]byte(doc), tv) })
		call(c, "encode-values|byte-kind-elements|Marshal-of-decoded", w, func() { json.Marshal(tv) })
		call(c, "encode-values|byte-kind-elements|Marshal", w, func() {
			json.Marshal([]any{[]byteVJ{1, 2}, []byteVT{3}, []bytePJ{4}, []bytePT{5, 6}, [2]byteVJ{}, map[string][]byteVT{"k": {1}}})
		})
	}
	t := pickType(c)
	f := &jtypes.Filler{R: c.Rng.Fork(2), NoNaN: c.Index%3 != 0, RawValid: c.Index%2 == 0, MaxLen: 6}
	v := f.NewValue(t)
	w := map[string]any{"type": jtypes.TypeString(t)}
	var x any
	func() {
		defer func() { recover() }()
		x = v.Interface()
	}()
	encodeAll(c, "encode-values|by-value", x, w)
	encodeAll(c, "encode-values|by-pointer", v.Addr().Interface(), w)
	// inside containers: map value, slice element, interface field, one-element array
	mv := reflect.MakeMap(reflect.MapOf(reflect.TypeOf(""), t))
	mv.SetMapIndex(reflect.ValueOf("k"), v)
	encodeAll(c, "encode-values|map-value", mv.Interface(), w)
	av := reflect.New(reflect.ArrayOf(1, t)).Elem()
	av.Index(0).Set(v)
	encodeAll(c, "encode-values|array1", av.Interface(), w)
	encodeAll(c, "encode-values|in-interface", []any{x, &x, map[string]any{"x": x}}, w)
	c.Distinct(core.Mix(core.HashString(t.String()), uint64(c.Index)), true)
	c.Sample(0, map[string]any{"sub": "encode-values", "type": jtypes.TypeString(t)})
}

// cycles ------------------------------------------------------------------------------------

type node struct {
	V    int
	Next *node
	Kids []*node
	M    map[string]*node
	I    any
}

type sliceCycle []sliceCycle
type anySlice []any

type arrSliceCycle [][1]arrSliceCycle

type arrKids struct {
	V    int
	Kids [][2]*arrKids
}

func cycleValue(shape int) (string, any) {
	switch shape {
	case 0:
		n := &node{V: 1}
		n.Next = n
		return "pointer-self", n
	case 1:
		a, b := &node{V: 1}, &node{V: 2}
		a.Next, b.Next = b, a
		return "pointer-pair", a
	case 2:
		n := &node{V: 1}
		n.Kids = []*node{n}
		return "slice-of-pointer", n
	case 3:
		n := &node{V: 1}
		n.M = map[string]*node{"self": n}
		return "map-value-pointer", n
	case 4:
		n := &node{V: 1}
		n.I = n
		return "interface-pointer", n
	case 5:
		s := make(anySlice, 1)
		s[0] = s
		return "slice-any-self", s
	case 6:
		m := map[string]any{}
		m["self"] = m
		return "map-any-self", m
	case 7:
		s := make(sliceCycle, 1)
		s[0] = s
		return "recursive-slice-type", s
	case 8:
		m := map[string]any{}
		s := []any{m}
		m["s"] = s
		return "map-slice-cycle", m
	case 9:
		var x any
		x = &x
		return "pointer-to-interface-self", x
	case 10:
		n := &node{V: 1}
		n.I = []any{map[string]any{"n": n}}
		return "through-interface-slice-map", *n
	case 11:
		n := &jtypes.LNode{V: 1}
		n.Next = n
		return "non-empty-interface-self", n
	case 12:
		a, b := &jtypes.LNode{V: 1}, &jtypes.LNode{V: 2}
		a.Next, b.Next = b, a
		return "non-empty-interface-pair", *a
	case 13:
		m := jtypes.RMp{}
		m["self"] = m
		return "recursive-map-type", m
	case 14:
		var a jtypes.RArr
		a[0] = &a
		return "recursive-array-type", &a
	case 15:
		n := &jtypes.LNode{V: 1}
		n.Next = n
		return "non-empty-interface-in-any-slice", []any{map[string]any{"n": n}}
	case 16:
		s := make([][1]any, 1)
		s[0][0] = s
		return "slice-of-arrays-of-any-self", s
	case 17:
		a := make(arrSliceCycle, 1)
		a[0][0] = a
		return "recursive-slice-of-arrays-type", a
	case 18:
		n := &arrKids{V: 1}
		n.Kids = [][2]*arrKids{{n, nil}}
		return "slice-of-arrays-of-pointers", n
	default:
		type w struct{ P **node }
		n := &node{}
		n.Next = n
		return "double-pointer", w{&n}
	}
}

const nCycleShapes = 20

func runCycles(c *core.Case) {
	shape := c.Index % nCycleShapes
	name, x := cycleValue(shape)
	c.Budget(120 * time.Second)
	w := map[string]any{"shape": name}
	c.Journal("cycle|" + name + "|Marshal")
	var err error
	if sig, stk := core.Guard(func() { _, err = json.Marshal(x) }); sig != "" {
		c.Violation("cycle|"+name+"|Marshal", sig, stk, w)
	} else if err == nil {
		c.Violation("cycle|"+name+"|Marshal", "no-error", "Marshal of a cyclic value returned successfully", w)
	}
	c.Journal("cycle|" + name + "|Encoder")
	if sig, stk := core.Guard(func() { json.NewEncoder(io.Discard).Encode(x) }); sig != "" {
		c.Violation("cycle|"+name+"|Encoder", sig, stk, w)
	}
	c.Journal("cycle|" + name + "|Append-unsorted")
	if sig, stk := core.Guard(func() { json.Append(nil, x, 0) }); sig != "" {
		c.Violation("cycle|"+name+"|Append-unsorted", sig, stk, w)
	}
	c.Count("cycles", 1)
	c.Distinct(uint64(shape)+500, true)
	c.Sample(0, map[string]any{"sub": "cycles", "shape": name})
}

// deep nesting ---------------------------------------------------------------------------------

var depths = []int{10, 1000, 10000, 100000, 1000000}
var deepShapes = []string{"linked-pointers", "slice-any", "map-any", "slice-of-slices-type", "mixed"}

func deepValue(shape string, n int) any {
	switch shape {
	case "linked-pointers":
		var head *node
		for i := 0; i < n; i++ {
			head = &node{V: i, Next: head}
		}
		return head
	case "slice-any":
		var v any = 1
		for i := 0; i < n; i++ {
			v = []any{v}
		}
		return v
	case "map-any":
		var v any = 1
		for i := 0; i < n; i++ {
			v = map[string]any{"k": v}
		}
		return v
	case "slice-of-slices-type":
		var v sliceCycle
		for i := 0; i < n; i++ {
			v = sliceCycle{v}
		}
		return v
	default:
		var v any = "x"
		for i := 0; i < n; i++ {
			switch i % 3 {
			case 0:
				v = []any{v}
			case 1:
				v = map[string]any{"k": v}
			default:
				v = &node{I: v}
			}
		}
		return v
	}
}

func runDeepEncode(c *core.Case) {
	shape := deepShapes[c.Index%len(deepShapes)]
	n := depths[(c.Index/len(deepShapes))%len(depths)]
	c.Budget(300 * time.Second)
	class := fmt.Sprintf("deep-encode|%s|%d", shape, n)
	x := deepValue(shape, n)
	w := map[string]any{"shape": shape, "depth": n}
	c.Journal(class + "|Marshal")
	if sig, stk := core.Guard(func() { json.Marshal(x) }); sig != "" {
		c.Violation(class+"|Marshal", sig, stk, w)
	}
	c.Journal(class + "|Append-by-pointer")
	if sig, stk := core.Guard(func() { json.Append(nil, &x, json.SortMapKeys) }); sig != "" {
		c.Violation(class+"|Append-by-pointer", sig, stk, w)
	}
	c.Count("deep-values", 1)
	c.Distinct(core.HashString(class), true)
	c.Sample(n/1000, map[string]any{"sub": "deep-encode", "shape": shape, "depth": n})
}

var docShapes = []string{"[", `{"a":`, `[{"Next":`, `{"Kids":[`, `[[{"k":[`}

func runDeepDecode(c *core.Case) {
	open := docShapes[c.Index%len(docShapes)]
	n := []int{10, 1000, 9999, 10001, 100000, 1000000, 3000000}[(c.Index/len(docShapes))%7]
	c.Budget(300 * time.Second)
	class := fmt.Sprintf("deep-decode|%s|%d", open, n)
	doc := []byte(strings.Repeat(open, n))
	if c.Index%2 == 0 {
		cl := strings.NewReplacer("[", "]", "{", "}", `"a":`, "", `"Next":`, "", `"Kids":`, "", `"k":`, "").Replace(open)
		rev := []byte(cl)
		for i, j := 0, len(rev)-1; i < j; i, j = i+1, j-1 {
			rev[i], rev[j] = rev[j], rev[i]
		}
		doc = append(append(doc, "1"...), bytes.Repeat(rev, n)...)
	}
	w := map[string]any{"open": open, "depth": n, "closed": c.Index%2 == 0}
	targets := []func() any{func() any { return new(any) }, func() any { return new(node) }, func() any { return new([]node) }, func() any { return new(sliceCycle) }, func() any { return new(map[string]any) }, func() any { return new(json.RawMessage) }, func() any { return new(struct{}) },
		func() any { return new(jtypes.RMp) }, func() any { return new(jtypes.RSl) }, func() any { return new(jtypes.RArr) }, func() any { return new(map[string]jtypes.RMp) }, func() any { return new(jtypes.LNode) }}
	for ti, mk := range targets {
		c.Journal(fmt.Sprintf("%s|Unmarshal-target%d", class, ti))
		if sig, stk := core.Guard(func() { json.Unmarshal(doc, mk()) }); sig != "" {
			c.Violation(fmt.Sprintf("%s|Unmarshal-target%d", class, ti), sig, stk, w)
		}
	}
	c.Journal(class + "|Valid")
	if sig, stk := core.Guard(func() { json.Valid(doc) }); sig != "" {
		c.Violation(class+"|Valid", sig, stk, w)
	}
	c.Journal(class + "|Decoder")
	if sig, stk := core.Guard(func() {
		var v any
		json.NewDecoder(bytes.NewReader(doc)).Decode(&v)
	}); sig != "" {
		c.Violation(class+"|Decoder", sig, stk, w)
	}
	c.Journal(class + "|Tokenizer")
	if sig, stk := core.Guard(func() {
		tk := json.NewTokenizer(doc)
		for tk.Next() {
		}
	}); sig != "" {
		c.Violation(class+"|Tokenizer", sig, stk, w)
	}
	c.Journal(class + "|Marshal-RawMessage")
	if sig, stk := core.Guard(func() { json.Marshal(json.RawMessage(doc)) }); sig != "" {
		c.Violation(class+"|Marshal-RawMessage", sig, stk, w)
	}
	c.Count("deep-docs", 1)
	c.Distinct(core.HashString(class), true)
	c.Sample(n/1000, map[string]any{"sub": "deep-decode", "open": open, "depth": n})
}

// cyclic targets: interfaces that hold pointers to each other. The decoder follows a non-nil
// pointer held by an interface; going round the cycle consumes no input, so it must stop by itself.
var cyclicTargetDocs = []string{`{"a":"b"}`, `[1,2,3]`, `null`, `"s"`, `7`, `{"X":[1,2,3]}`, `{"X":{"X":null}}`, `[`, ``, `{"X":`, `tru`}

// dynT is a named interface type without methods.
type dynT interface{}

type dynHolder struct{ X dynT }

func runCyclicTargets(c *core.Case) {
	doc := []byte(cyclicTargetDocs[c.Index%len(cyclicTargetDocs)])
	shape := (c.Index / len(cyclicTargetDocs)) % 9
	c.Budget(120 * time.Second)
	type T struct{ X any }
	var target any
	name := ""
	switch shape {
	case 0:
		name = "self"
		var a any
		a = &a
		target = &a
	case 1:
		name = "two"
		var a, b any
		a, b = &b, &a
		target = &a
	case 2:
		name = "three"
		var a, b, d any
		a, b, d = &b, &d, &a
		target = &a
	case 3:
		name = "three-through-field"
		v := new(T)
		var b, d any
		v.X, b, d = &b, &d, &v.X
		target = v
	case 4:
		name = "two-in-slice"
		s := make([]any, 2)
		s[0], s[1] = &s[1], &s[0]
		target = &s
	case 6:
		name = "named-interface-self"
		h := new(dynHolder)
		h.X = &h.X
		target = h
	case 7:
		name = "named-interface-two"
		h := new(dynHolder)
		var b dynT
		h.X, b = &b, &h.X
		target = h
	case 8:
		name = "named-and-plain-interface"
		h := new(dynHolder)
		var a any
		h.X, a = &a, &h.X
		target = h
	default:
		name = "two-in-map-value"
		var a, b any
		a, b = &b, &a
		m := map[string]any{"X": a, "a": &a}
		target = &m
	}
	class := "cyclic-target|" + name
	w := map[string]any{"doc": string(doc), "shape": name}
	c.Journal(class + "|Unmarshal")
	if sig, stk := core.Guard(func() { json.Unmarshal(doc, target) }); sig != "" {
		c.Violation(class+"|Unmarshal", sig, stk, w)
	}
	c.Journal(class + "|Decoder")
	if sig, stk := core.Guard(func() { json.NewDecoder(bytes.NewReader(doc)).Decode(target) }); sig != "" {
		c.Violation(class+"|Decoder", sig, stk, w)
	}
	c.Count("cyclic-targets", 1)
	c.Distinct(core.Mix(uint64(shape), core.HashBytes(doc)), true)
}

func init() {
	core.Register(&core.Monitor{
		Prop:    "C06",
		Rule:    "decode-fuzz: arbitrary bytes, token soups, truncated and mutated documents into guarded targets (struct{Pre [4]uint64; V T; Post [4]uint64} with canary words) of generated and library types, zero or pre-filled, through Unmarshal, Parse with a random 9-bit flag word, Decoder.Decode (chunked reader ending in an error; UseNumber/DisallowUnknownFields/ZeroCopy), Valid, Tokenizer and invalid targets; whatever Unmarshal left in the target is encoded again (every pointer in it is followed). encode-values: slices, arrays and maps of byte-kind element types with value- and pointer-receiver (un)marshalers as decode targets and values, maps with values of a non-empty interface type (Stringer, error, Marshaler, io.Reader; also as decode targets), generated values incl. pointer-shaped corners by value, by pointer, as map value, in a one-element array and inside interfaces through Marshal/Append/Encoder/MarshalIndent. cycles: 20 cyclic shapes through pointers, slices, maps, empty and non-empty interfaces, recursive named slice/map/array types must return an error. cyclic-targets: decoding into interfaces that hold pointers to each other (cycles of 1-3, through a field, slice elements, map values, named empty interface types). deep-encode / deep-decode: nesting of 10 .. 10^6 levels (3*10^6 for documents) in 5 shapes each. A recovered panic, a canary change, a process death attributed by the journal (SIGSEGV, stack overflow, checkptr, ASan report, out of memory) or a CPU-time budget overrun confirmed in a fresh process is a violation; no functional comparison. Distinct by (type, document) / shape.",
		Trusted: []string{"the supervisor's crash attribution (journal + stderr signature)", "Go race detector's checkptr and AddressSanitizer for the unsafe paths", "process CPU-time clock for bounded progress"},
		Subs: []core.Sub{
			{Name: "decode-fuzz", N: core.Const(24000, 1000000), Run: runDecodeFuzz},
			{Name: "encode-values", N: core.Const(12000, 400000), Run: runEncodeValues},
			{Name: "cycles", N: core.Const(nCycleShapes, nCycleShapes*3), Run: runCycles},
			{Name: "deep-encode", N: func(core.Tier) int { return len(deepShapes) * len(depths) }, Run: runDeepEncode, Modes: []string{"plain"}},
			{Name: "cyclic-targets", N: func(core.Tier) int { return 9 * len(cyclicTargetDocs) }, Run: runCyclicTargets, Modes: []string{"plain"}},
			{Name: "deep-decode", N: func(core.Tier) int { return len(docShapes) * 7 * 2 }, Run: runDeepDecode, Modes: []string{"plain", "race"}},
		},
	})
}
