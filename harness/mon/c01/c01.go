// Package c01: json.Marshal & co. are byte-for-byte encoding/json.
package c01

import (
	"bytes"
	stdjson "encoding/json"
	"fmt"
	"math"
	"reflect"
	"strconv"
	"strings"
	"time"
	"unicode/utf8"

	"github.com/segmentio/encoding/json"
	"verifharness/core"
	"verifharness/gen/jtypes"
)

type outcome struct {
	b   []byte
	err error
	sig string // panic signature
	stk string
}

func pkgMarshal(x any) (o outcome) {
	o.sig, o.stk = core.Guard(func() { o.b, o.err = json.Marshal(x) })
	return
}

func stdMarshal(x any) (o outcome) {
	o.sig, o.stk = core.Guard(func() { o.b, o.err = stdjson.Marshal(x) })
	return
}

// differs reports how two outcomes differ ("" = same).
func differs(p, s outcome) string {
	switch {
	case s.sig != "":
		return "" // the reference itself panicked: undefined, skipped
	case p.sig != "":
		return p.sig
	case p.err == nil && s.err != nil:
		return "pkg=ok,std=err"
	case p.err != nil && s.err == nil:
		return "pkg=err,std=ok"
	case p.err == nil && !bytes.Equal(p.b, s.b):
		return "bytes-diff"
	}
	return ""
}

func iface(v reflect.Value) (x any, ok bool) {
	defer func() {
		if recover() != nil {
			ok = false
		}
	}()
	if !v.IsValid() || !v.CanInterface() {
		return nil, false
	}
	return v.Interface(), true
}

// cmpFn runs one API under one setting with both implementations.
type cmpFn func(x any) (p, s outcome)

func marshalBoth(x any) (outcome, outcome) { return pkgMarshal(x), stdMarshal(x) }

func mismatchWith(cmp cmpFn, v reflect.Value) string {
	x, ok := iface(v)
	if !ok {
		return ""
	}
	return differs(cmp(x))
}

func mismatch(v reflect.Value) string { return mismatchWith(marshalBoth, v) }

// localize descends to the innermost value on which the two implementations still differ.
func localize(v reflect.Value, budget *int) reflect.Value {
	return localizeWith(marshalBoth, v, budget)
}

func localizeWith(cmp cmpFn, v reflect.Value, budget *int) reflect.Value {
	mismatch := func(v reflect.Value) string { return mismatchWith(cmp, v) }
	localize := func(v reflect.Value, budget *int) reflect.Value { return localizeWith(cmp, v, budget) }
	if *budget <= 0 {
		return v
	}
	*budget--
	try := func(c reflect.Value) (reflect.Value, bool) {
		if mismatch(c) != "" {
			return localize(c, budget), true
		}
		return reflect.Value{}, false
	}
	switch v.Kind() {
	case reflect.Struct:
		for i := 0; i < v.NumField(); i++ {
			if !v.Type().Field(i).IsExported() {
				continue
			}
			if r, ok := try(v.Field(i)); ok {
				return r
			}
		}
	case reflect.Pointer, reflect.Interface:
		if !v.IsNil() {
			if r, ok := try(v.Elem()); ok {
				return r
			}
		}
	case reflect.Slice, reflect.Array:
		if v.Kind() == reflect.Slice && v.Type().Elem().Kind() == reflect.Uint8 {
			break
		}
		for i := 0; i < v.Len() && i < 64; i++ {
			if r, ok := try(v.Index(i)); ok {
				return r
			}
		}
	case reflect.Map:
		it := v.MapRange()
		n := 0
		for it.Next() && n < 64 {
			n++
			if r, ok := try(it.Value()); ok {
				return r
			}
			// a key on its own: as the only key of a map to bool
			km := reflect.MakeMap(reflect.MapOf(v.Type().Key(), reflect.TypeOf(true)))
			km.SetMapIndex(it.Key(), reflect.ValueOf(true))
			if mismatch(km) != "" {
				return km
			}
		}
	}
	return v
}

// TypeClass is a short structural description of a leaf type for finding keys.
func TypeClass(t reflect.Type) string {
	if t == nil {
		return "nil"
	}
	if t.PkgPath() != "" && t.Name() != "" {
		s := t.String()
		s = strings.TrimPrefix(s, "jtypes.")
		return s
	}
	switch t.Kind() {
	case reflect.Pointer:
		return "*" + TypeClass(t.Elem())
	case reflect.Slice:
		return "[]" + TypeClass(t.Elem())
	case reflect.Array:
		return fmt.Sprintf("[%d]%s", t.Len(), TypeClass(t.Elem()))
	case reflect.Map:
		return "map[" + TypeClass(t.Key()) + "]" + TypeClass(t.Elem())
	case reflect.Struct:
		if t.NumField() == 0 {
			return "struct{}"
		}
		if t.NumField() == 1 {
			return "struct{" + shallow(t.Field(0).Type) + optsOf(t.Field(0)) + "}"
		}
		return "struct"
	case reflect.Interface:
		if t.NumMethod() == 0 {
			return "any"
		}
		return "iface"
	}
	return t.Kind().String()
}

func optsOf(f reflect.StructField) string {
	tag := f.Tag.Get("json")
	o := ""
	if strings.Contains(tag, ",string") {
		o += ",string"
	}
	if strings.Contains(tag, ",omitempty") {
		o += ",omitempty"
	}
	return o
}

func shallow(t reflect.Type) string {
	switch t.Kind() {
	case reflect.Struct:
		if t.PkgPath() != "" {
			return TypeClass(t)
		}
		return "struct"
	case reflect.Pointer:
		return "*" + shallow(t.Elem())
	case reflect.Slice:
		return "[]" + shallow(t.Elem())
	case reflect.Map:
		return "map[" + shallow(t.Key()) + "]" + shallow(t.Elem())
	case reflect.Array:
		return fmt.Sprintf("[%d]%s", t.Len(), shallow(t.Elem()))
	}
	return TypeClass(t)
}

func showValue(v reflect.Value) string {
	x, ok := iface(v)
	if !ok {
		return "?"
	}
	s := fmt.Sprintf("%#v", x)
	if len(s) > 400 {
		s = s[:400] + "…"
	}
	return s
}

// report localises a mismatching value and emits one violation.
func report(c *core.Case, api string, v reflect.Value, how string, extra string) {
	reportWith(c, marshalBoth, api, v, how, extra)
}

func reportWith(c *core.Case, cmp cmpFn, api string, v reflect.Value, how string, extra string) {
	budget := 400
	leaf := localizeWith(cmp, v, &budget)
	class := "top:" + TypeClass(v.Type())
	lhow := how
	if leaf.IsValid() {
		if m := mismatchWith(cmp, leaf); m != "" {
			class = TypeClass(leaf.Type())
			lhow = m
			if leaf.Kind() == reflect.Struct && leaf.Type().Name() == "" {
				class = structShape(leaf.Type())
			}
		} else {
			class = "unlocalised:" + shallow(v.Type())
		}
	}
	x, _ := iface(leaf)
	p, s := cmp(x)
	c.Violation(api+"|"+class, lhow, fmt.Sprintf("%s: %s pkg=%s err=%v | std=%s err=%v %s %s | value %s (%s)", api, firstDiff(p.b, s.b), tr(p.b), p.err, tr(s.b), s.err, p.stk, extra, showValue(leaf), leaf.Type()),
		map[string]any{"type": jtypes.TypeString(v.Type()), "leaf_type": jtypes.TypeString(leaf.Type()), "leaf_value": showValue(leaf)})
}

// structShape describes an anonymous struct leaf by field kinds/options (bounded).
func structShape(t reflect.Type) string {
	var parts []string
	for i := 0; i < t.NumField() && i < 4; i++ {
		f := t.Field(i)
		tag, has := f.Tag.Lookup("json")
		name := ""
		if has {
			name = ":" + nameClass(strings.Split(tag, ",")[0])
		}
		parts = append(parts, shallow(f.Type)+name+optsOf(f))
	}
	s := "struct{" + strings.Join(parts, ";")
	if t.NumField() > 4 {
		s += fmt.Sprintf(";+%d", t.NumField()-4)
	}
	return s + "}"
}

func nameClass(n string) string {
	switch {
	case n == "":
		return "noname"
	case n == "-":
		return "dash"
	}
	for _, r := range n {
		if !(r == '_' || r >= '0' && r <= '9' || r >= 'a' && r <= 'z' || r >= 'A' && r <= 'Z') {
			return "punct"
		}
	}
	return "plain"
}

// firstDiff shows both outputs around the first differing byte.
func firstDiff(a, b []byte) string {
	if a == nil || b == nil {
		return ""
	}
	i := 0
	for i < len(a) && i < len(b) && a[i] == b[i] {
		i++
	}
	lo := i - 30
	if lo < 0 {
		lo = 0
	}
	w := func(x []byte) string {
		hi := i + 40
		if hi > len(x) {
			hi = len(x)
		}
		if lo > len(x) {
			return ""
		}
		return string(x[lo:hi])
	}
	return fmt.Sprintf("[first difference at byte %d: pkg …%s… std …%s…]", i, w(a), w(b))
}

func tr(b []byte) string {
	if len(b) > 300 {
		return string(b[:300]) + "…"
	}
	return string(b)
}

// settings ----------------------------------------------------------------------

type setting struct {
	name           string
	html           bool
	prefix, indent string
}

var settings = []setting{
	{"enc", true, "", ""}, {"enc-nohtml", false, "", ""}, {"enc-indent2", true, "", "  "}, {"enc-nohtml-prefix-tab", false, ">", "\t"}, {"enc-prefix-only", true, "--", ""},
}

func encodeBoth(x any, st setting) (p, s outcome) {
	p.sig, p.stk = core.Guard(func() {
		var buf bytes.Buffer
		e := json.NewEncoder(&buf)
		e.SetEscapeHTML(st.html)
		e.SetIndent(st.prefix, st.indent)
		p.err = e.Encode(x)
		if p.err == nil { // the same Encoder again: state kept between calls must not show
			p.err = e.Encode(x)
			e.Encode([]int{1})
		}
		p.b = buf.Bytes()
	})
	s.sig, s.stk = core.Guard(func() {
		var buf bytes.Buffer
		e := stdjson.NewEncoder(&buf)
		e.SetEscapeHTML(st.html)
		e.SetIndent(st.prefix, st.indent)
		s.err = e.Encode(x)
		if s.err == nil {
			s.err = e.Encode(x)
			e.Encode([]int{1})
		}
		s.b = buf.Bytes()
	})
	if p.err != nil {
		p.b = nil
	}
	if s.err != nil {
		s.b = nil
	}
	return
}

// checkValue runs every API / setting on one value (by value and by pointer).
func checkValue(c *core.Case, v reflect.Value, allSettings bool) {
	forms := []reflect.Value{v}
	if v.CanAddr() {
		forms = append(forms, v.Addr())
	}
	for fi, fv := range forms {
		x, ok := iface(fv)
		if !ok {
			continue
		}
		p, s := pkgMarshal(x), stdMarshal(x)
		c.Count("calls.Marshal", 1)
		if s.sig != "" {
			c.Count("oracle-undefined", 1)
			continue
		}
		if s.err != nil {
			c.Count("cases.std-error", 1)
		}
		if how := differs(p, s); how != "" {
			report(c, "Marshal", fv, how, "")
			continue
		}
		if s.err != nil {
			continue
		}
		// Append with the default flags
		var ab []byte
		var aerr error
		appendBoth := func(x any) (p, s outcome) {
			p.sig, p.stk = core.Guard(func() { p.b, p.err = json.Append(nil, x, json.EscapeHTML|json.SortMapKeys) })
			return p, stdMarshal(x)
		}
		_ = ab
		_ = aerr
		if how := differs(appendBoth(x)); how != "" {
			reportWith(c, appendBoth, "Append", fv, how, "")
		}
		// MarshalIndent
		if fi == 0 || allSettings {
			for _, pi := range [][2]string{{"p", " "}, {"", ""}, {"", "\t"}, {">", ""}} {
				pi := pi
				indentBoth := func(x any) (p, s outcome) {
					p.sig, p.stk = core.Guard(func() { p.b, p.err = json.MarshalIndent(x, pi[0], pi[1]) })
					s.sig, s.stk = core.Guard(func() { s.b, s.err = stdjson.MarshalIndent(x, pi[0], pi[1]) })
					return
				}
				if how := differs(indentBoth(x)); how != "" {
					reportWith(c, indentBoth, "MarshalIndent", fv, how, fmt.Sprintf("prefix %q indent %q", pi[0], pi[1]))
					break
				}
				c.Count("calls.MarshalIndent", 1)
			}
		}
		n := 2
		if allSettings {
			n = len(settings)
		}
		for k := 0; k < n; k++ {
			st := settings[(k+c.Index)%len(settings)]
			if allSettings {
				st = settings[k]
			}
			encBoth := func(x any) (outcome, outcome) { return encodeBoth(x, st) }
			c.Count("calls.Encode", 1)
			if how := differs(encBoth(x)); how != "" {
				reportWith(c, encBoth, "Encode."+st.name, fv, how, fmt.Sprintf("Encoder(%+v)", st))
				break
			}
		}
	}
}

// sub-monitors --------------------------------------------------------------------------

func runGenerated(c *core.Case) {
	cfg := jtypes.DefaultCfg
	cfg.ErrLeaves = c.Index%3 == 0
	if c.Index%7 == 0 {
		cfg.MaxDepth, cfg.MaxFields = 4, 12
	}
	g := jtypes.New(c.Rng.Fork(1), cfg)
	t := g.Type(0)
	c.Journal("generated")
	f := &jtypes.Filler{R: c.Rng.Fork(2), NoNaN: c.Index%5 != 0, RawValid: c.Index%4 != 0}
	nv := 3
	for k := 0; k < nv; k++ {
		v := f.NewValue(t)
		checkValue(c, v, k == 0 && c.Index%8 == 0)
	}
	feature(c, t)
	c.Distinct(core.HashString(t.String()), t.Kind() != reflect.Bool)
	c.Sample(len(t.String())/64, map[string]any{"sub": "generated", "type": jtypes.TypeString(t)})
}

func feature(c *core.Case, t reflect.Type) {
	seen := map[reflect.Type]bool{}
	var walk func(t reflect.Type, d int)
	walk = func(t reflect.Type, d int) {
		if seen[t] || d > 6 {
			return
		}
		seen[t] = true
		switch t.Kind() {
		case reflect.Struct:
			if t.NumField() > 32 {
				c.Count("feature.struct>32fields", 1)
			}
			for i := 0; i < t.NumField(); i++ {
				tag := t.Field(i).Tag.Get("json")
				if strings.Contains(tag, ",string") {
					c.Count("feature.string-option", 1)
				}
				if strings.Contains(tag, ",omitempty") {
					c.Count("feature.omitempty", 1)
				}
				if t.Field(i).Anonymous {
					c.Count("feature.embedded", 1)
				}
				walk(t.Field(i).Type, d+1)
			}
		case reflect.Map:
			c.Count("feature.map."+t.Key().Kind().String(), 1)
			walk(t.Elem(), d+1)
		case reflect.Pointer, reflect.Slice, reflect.Array:
			if t.Kind() == reflect.Array && t.Len() == 1 {
				c.Count("feature.array1", 1)
			}
			walk(t.Elem(), d+1)
		case reflect.Interface:
			c.Count("feature.interface", 1)
		}
		if t.Implements(reflect.TypeOf((*stdjson.Marshaler)(nil)).Elem()) {
			c.Count("feature.marshaler-on-T", 1)
		} else if reflect.PointerTo(t).Implements(reflect.TypeOf((*stdjson.Marshaler)(nil)).Elem()) {
			c.Count("feature.marshaler-on-*T", 1)
		}
	}
	walk(t, 0)
}

// library types in wrappers: T, *T, []T, [1]T, [2]T, map[string]T, struct{F T}, struct{F T omitempty}, struct{F *T}, any(T)
func wrappers(t reflect.Type) []reflect.Type {
	ws := []reflect.Type{t, reflect.PointerTo(t), reflect.SliceOf(t), reflect.ArrayOf(1, t), reflect.ArrayOf(2, t), reflect.MapOf(reflect.TypeOf(""), t),
		reflect.StructOf([]reflect.StructField{{Name: "F", Type: t}}),
		reflect.StructOf([]reflect.StructField{{Name: "F", Type: t, Tag: `json:"f,omitempty"`}}),
		reflect.StructOf([]reflect.StructField{{Name: "F", Type: reflect.PointerTo(t), Tag: `json:",omitempty"`}, {Name: "G", Type: reflect.TypeOf(0)}}),
		reflect.StructOf([]reflect.StructField{{Name: "I", Type: jtypes.TAny}}),
		reflect.SliceOf(reflect.PointerTo(t)), reflect.MapOf(reflect.TypeOf(""), reflect.PointerTo(t)), reflect.ArrayOf(1, reflect.PointerTo(t)),
		reflect.PointerTo(reflect.PointerTo(t)),
	}
	if t.Comparable() && t != reflect.TypeOf(jtypes.PromotedText{}) && (t.Kind() == reflect.String || t.Kind() >= reflect.Int && t.Kind() <= reflect.Uintptr || t.Implements(reflect.TypeOf((*interface{ MarshalText() ([]byte, error) })(nil)).Elem())) {
		ws = append(ws, reflect.MapOf(t, reflect.TypeOf(0)))
	}
	return ws
}

var libTypes = append(append([]reflect.Type{}, jtypes.Library...), jtypes.TNumber, jtypes.TRaw, jtypes.TTime, jtypes.TBytes,
	reflect.TypeOf(float32(0)), reflect.TypeOf(float64(0)), reflect.TypeOf(""), reflect.TypeOf(int64(0)), reflect.TypeOf(uint8(0)), reflect.TypeOf(true), reflect.TypeOf(map[string]any(nil)), reflect.TypeOf([]any(nil)),
	reflect.TypeOf(map[string]stdjson.RawMessage(nil)), reflect.TypeOf(map[string]string(nil)), reflect.TypeOf(map[string][]string(nil)), reflect.TypeOf(map[string]bool(nil)), reflect.TypeOf(map[int]string(nil)), reflect.TypeOf(map[int8]bool(nil)), reflect.TypeOf(map[uint16]any(nil)))

func runLibrary(c *core.Case) {
	t := libTypes[c.Index%len(libTypes)]
	ws := wrappers(t)
	w := ws[(c.Index/len(libTypes))%len(ws)]
	c.Journal("library")
	f := &jtypes.Filler{R: c.Rng, NoNaN: c.Index%4 != 0, RawValid: c.Index%3 != 0}
	for k := 0; k < 4; k++ {
		v := f.NewValue(w)
		if w.Kind() == reflect.Struct && w.NumField() == 1 && w.Field(0).Type == jtypes.TAny {
			// put the library value (or a pointer to it) into the interface field
			lv := f.NewValue(t)
			if k%2 == 0 {
				v.Field(0).Set(lv)
			} else {
				v.Field(0).Set(lv.Addr())
			}
		}
		checkValue(c, v, k == 0)
	}
	c.Distinct(core.HashString("lib:"+w.String()), true)
	c.Sample(0, map[string]any{"sub": "library", "type": jtypes.TypeString(w)})
}

// strings: one special byte sequence at every position relative to the 8-byte word scan
var specialSeqs = []string{`"`, `\`, "<", ">", "&", "\x00", "\x1f", "\x7f", "\x80", "\xff", "\u2028", "\u2029", "\ufffd", "é", "\xc3", "\xed\xa0\x80", "\n", "\t", "\U0001F600", "/", " "}

func checkString(c *core.Case, class, s string) {
	sb, serr := stdjson.Marshal(s)
	pb, perr := json.Marshal(s)
	if (serr == nil) != (perr == nil) || !bytes.Equal(sb, pb) {
		c.Violation("Marshal|"+class, "bytes-diff", fmt.Sprintf("Marshal(%q): pkg=%s std=%s", s, pb, sb), map[string]any{"string": s})
		return
	}
	if got := json.Escape(s); !bytes.Equal(got, sb) {
		c.Violation("Escape|"+class, "bytes-diff", fmt.Sprintf("Escape(%q)=%s std=%s", s, got, sb), map[string]any{"string": s})
	}
	if got := json.AppendEscape([]byte("x"), s, json.EscapeHTML); !bytes.Equal(got[1:], sb) || got[0] != 'x' {
		c.Violation("AppendEscape|"+class, "bytes-diff", fmt.Sprintf("AppendEscape(%q)=%s std=%s", s, got, sb), map[string]any{"string": s})
	}
	var buf bytes.Buffer
	e := stdjson.NewEncoder(&buf)
	e.SetEscapeHTML(false)
	e.Encode(s)
	want := bytes.TrimSuffix(buf.Bytes(), []byte("\n"))
	if got := json.AppendEscape(nil, s, 0); !bytes.Equal(got, want) {
		c.Violation("AppendEscape.nohtml|"+class, "bytes-diff", fmt.Sprintf("AppendEscape(%q,0)=%s std=%s", s, got, want), map[string]any{"string": s})
	}
	// as a map key and as a struct field
	m := map[string]int{s: 1}
	sb, _ = stdjson.Marshal(m)
	pb, _ = json.Marshal(m)
	if !bytes.Equal(sb, pb) {
		c.Violation("Marshal|map-key-"+class, "bytes-diff", fmt.Sprintf("Marshal(map[%q]): pkg=%s std=%s", s, pb, sb), map[string]any{"string": s})
	}
}

func runStringSweep(c *core.Case) {
	L := c.Index
	c.Journal("string-sweep")
	n := 0
	for p := 0; p <= L; p++ {
		for _, sp := range specialSeqs {
			s := strings.Repeat("a", p) + sp + strings.Repeat("b", L-p)
			checkString(c, "string-sweep", s)
			n++
		}
	}
	// two specials
	for i := 0; i < 200; i++ {
		b := []byte(strings.Repeat("x", L+2))
		b[c.Rng.Intn(len(b))] = core.Pick(c.Rng, []byte("\"\\<>&\x00\x1f\x7f\x80\xff"))
		b[c.Rng.Intn(len(b))] = core.Pick(c.Rng, []byte("\"\\<>&\x00\x1f\x7f\x80\xff"))
		checkString(c, "string-sweep", string(b))
		n++
	}
	c.Count("strings", n)
	c.Distinct(uint64(L)+77000, true)
	c.Sample(L, map[string]any{"sub": "string-sweep", "length": L, "specials": len(specialSeqs), "strings": n})
}

func runRandomStrings(c *core.Case) {
	c.Journal("random-strings")
	for i := 0; i < 64; i++ {
		var s string
		switch c.Rng.Intn(3) {
		case 0:
			s = string(c.Rng.Bytes(c.Rng.Intn(80)))
		case 1:
			s = c.Rng.String(200)
		default:
			var sb strings.Builder
			for k := c.Rng.Intn(40); k > 0; k-- {
				sb.WriteRune(rune(c.Rng.Intn(0x11000)))
			}
			s = sb.String()
		}
		checkString(c, "random-string", s)
		c.Distinct(core.HashString(s), !utf8.ValidString(s) || len(s) > 8)
	}
	c.Count("strings", 64)
}

// floats and integers -----------------------------------------------------------------------

func neighbours64(f float64) []float64 {
	b := math.Float64bits(f)
	return []float64{math.Float64frombits(b - 2), math.Float64frombits(b - 1), f, math.Float64frombits(b + 1), math.Float64frombits(b + 2)}
}

func neighbours32(f float32) []float32 {
	b := math.Float32bits(f)
	return []float32{math.Float32frombits(b - 2), math.Float32frombits(b - 1), f, math.Float32frombits(b + 1), math.Float32frombits(b + 2)}
}

func cmpScalar(c *core.Case, class string, x any) {
	sb, serr := stdjson.Marshal(x)
	var pb []byte
	var perr error
	if sig, _ := core.Guard(func() { pb, perr = json.Marshal(x) }); sig != "" {
		c.Violation("Marshal|"+class, sig, fmt.Sprintf("Marshal(%#v) panicked", x), map[string]any{"value": fmt.Sprintf("%#v", x)})
		return
	}
	if (serr == nil) != (perr == nil) {
		c.Violation("Marshal|"+class, fmt.Sprintf("pkg=%s,std=%s", ok(perr), ok(serr)), fmt.Sprintf("Marshal(%#v): pkg err=%v std err=%v", x, perr, serr), map[string]any{"value": fmt.Sprintf("%#v", x)})
	} else if !bytes.Equal(sb, pb) {
		c.Violation("Marshal|"+class, "bytes-diff", fmt.Sprintf("Marshal(%#v): pkg=%s std=%s", x, pb, sb), map[string]any{"value": fmt.Sprintf("%#v", x)})
	}
}

func ok(e error) string {
	if e == nil {
		return "ok"
	}
	return "err"
}

func runFloats(c *core.Case) {
	c.Journal("float-sweep")
	n := 0
	if c.Index == 0 {
		for _, p := range []float64{1e21, 1e-6, 1e20, 1e-7, 1, 0, 1e22, 1e15, 1e16, 1e17, 0.1, 100, 1 << 53, math.MaxFloat64, math.SmallestNonzeroFloat64, math.MaxFloat32, math.SmallestNonzeroFloat32, 1e23, 5e-324, 123456789, 0.000001} {
			for _, sgn := range []float64{1, -1} {
				for _, f := range neighbours64(p * sgn) {
					cmpScalar(c, "float64", f)
					cmpScalar(c, "float64-in-any", map[string]any{"f": f})
					cmpScalar(c, "float64,string", struct {
						F float64 `json:",string"`
					}{f})
					n += 3
				}
				for _, f := range neighbours32(float32(p * sgn)) {
					cmpScalar(c, "float32", f)
					cmpScalar(c, "float32,string", struct {
						F float32 `json:",string"`
					}{f})
					cmpScalar(c, "float32-map-value", map[string]float32{"f": f})
					n += 3
				}
			}
		}
		for _, f := range []float64{math.NaN(), math.Inf(1), math.Inf(-1), math.Copysign(0, -1)} {
			cmpScalar(c, "float64-special", f)
			cmpScalar(c, "float32-special", float32(f))
			cmpScalar(c, "float-special-nested", []any{map[string]float64{"x": f}})
			n += 3
		}
	}
	for i := 0; i < 2000; i++ {
		f := math.Float64frombits(c.Rng.Uint64())
		cmpScalar(c, "float64", f)
		f32 := math.Float32frombits(uint32(c.Rng.Uint64()))
		cmpScalar(c, "float32", f32)
		// decimal-exponent sweep: mantissa digits x exponent
		d, _ := strconv.ParseFloat(fmt.Sprintf("%de%d", 1+c.Rng.Intn(999999), c.Rng.Range(-30, 30)), 64)
		cmpScalar(c, "float64", d)
		cmpScalar(c, "float32", float32(d))
		n += 4
	}
	c.Count("floats", n)
	c.Distinct(uint64(c.Index)+88000, true)
	c.Sample(0, map[string]any{"sub": "float-sweep", "values": n})
}

func runInts(c *core.Case) {
	c.Journal("int-sweep")
	n := 0
	var vals []int64
	v := int64(1)
	for i := 0; i < 63; i++ {
		vals = append(vals, v-1, v, v+1, -v, -v-1, -v+1)
		v <<= 1
	}
	v = 1
	for i := 0; i < 19; i++ {
		vals = append(vals, v-1, v, v+1, -v, -v-1, -v+1)
		if i < 18 {
			v *= 10
		}
	}
	vals = append(vals, math.MaxInt64, math.MinInt64)
	for _, x := range vals {
		cmpScalar(c, "int64", x)
		cmpScalar(c, "int", int(x))
		cmpScalar(c, "int32", int32(x))
		cmpScalar(c, "int16", int16(x))
		cmpScalar(c, "int8", int8(x))
		cmpScalar(c, "uint64", uint64(x))
		cmpScalar(c, "uint32", uint32(x))
		cmpScalar(c, "uint16", uint16(x))
		cmpScalar(c, "uint8", uint8(x))
		cmpScalar(c, "uint", uint(x))
		cmpScalar(c, "uintptr", uintptr(x))
		cmpScalar(c, "int,string", struct {
			I int64 `json:",string"`
			U uint8 `json:",string"`
		}{x, uint8(x)})
		cmpScalar(c, "map[int64]", map[int64]int{x: 1, x / 3: 2, -x: 3, x / 7: 4})
		cmpScalar(c, "map[uint64]", map[uint64]int{uint64(x): 1, uint64(x) / 3: 2, 10: 3, 9: 4})
		cmpScalar(c, "map[int8]", map[int8]int{int8(x): 1, 10: 2, 9: 3, -1: 4, -10: 5})
		n += 15
	}
	c.Count("ints", n)
	c.Distinct(99000, true)
	c.Sample(0, map[string]any{"sub": "int-sweep", "values": n})
}

// time.Duration: the sanctioned difference ----------------------------------------------------

func runDuration(c *core.Case) {
	c.Journal("duration")
	for i := 0; i < 64; i++ {
		d := time.Duration(c.Rng.Int64())
		type W struct {
			D time.Duration
			P *time.Duration `json:",omitempty"`
			M map[string]time.Duration
			N string
		}
		w := W{D: d, P: &d, M: map[string]time.Duration{"k": d}, N: "n"}
		pb, err := json.Marshal(w)
		if err != nil {
			c.Violation("Marshal|time.Duration", "pkg=err", err.Error(), nil)
			continue
		}
		sb, _ := stdjson.Marshal(w)
		// std's output with the integer replaced by the quoted duration string
		want := strings.ReplaceAll(string(sb), strconv.FormatInt(int64(d), 10), strconv.Quote(d.String()))
		if string(pb) != want {
			c.Violation("Marshal|time.Duration", "bytes-diff", fmt.Sprintf("Duration %d: pkg=%s want %s", int64(d), pb, want), map[string]any{"duration": int64(d)})
		}
		c.Distinct(uint64(d), true)
	}
	c.Count("durations", 64)
}

func init() {
	core.Register(&core.Monitor{
		Prop:    "C01",
		Rule:    "generated: a type built at run time from the JSON-supported grammar (reflect.StructOf/SliceOf/ArrayOf/MapOf/PointerTo; 0-40 fields, tag grammar incl. punctuation names, '-', duplicates and case variants, omitempty/string/unknown options, unexported fields, arrays of 0-3, all integer/string/TextMarshaler key kinds, the five specialised map types, interfaces, Number/RawMessage/time.Time/[]byte, library leaves with Marshaler/TextMarshaler on value and pointer receivers, failing and raw-output marshalers) x 3 boundary-biased values, each passed by value and by pointer through Marshal, Append(nil,v,EscapeHTML|SortMapKeys), MarshalIndent and Encoder.Encode under EscapeHTML on/off x 3 indent/prefix pairs; compared with encoding/json on err==nil and bytes. library: 60+ hand-written named types (embedding, ambiguity, recursion, pointer-shaped single-field structs and arrays, ',string'/omitempty matrices) in 15 wrappers. string-sweep: length 0-70 x every position x 21 special sequences through Marshal/Escape/AppendEscape (HTML on/off)/map key. float-sweep, int-sweep: neighbours of the format cut-offs and every power of 2 and 10 +-1 for all widths; duration: the sanctioned quoted form. A failing case is localised to the innermost value that still differs; distinct = distinct type string.",
		Trusted: []string{"encoding/json (go1.23.5) Marshal / MarshalIndent / Encoder as the byte-exact reference"},
		Subs: []core.Sub{
			{Name: "generated", N: core.Const(60000, 1500000), Run: runGenerated},
			{Name: "library", N: func(t core.Tier) int {
				if t == core.Thorough {
					return len(libTypes) * 15 * 20
				}
				return len(libTypes) * 15
			}, Run: runLibrary},
			{Name: "string-sweep", N: core.Const(71, 71), Run: runStringSweep},
			{Name: "random-strings", N: core.Const(500, 20000), Run: runRandomStrings},
			{Name: "float-sweep", N: core.Const(14, 500), Run: runFloats},
			{Name: "int-sweep", N: core.Const(1, 1), Run: runInts},
			{Name: "duration", N: core.Const(20, 500), Run: runDuration},
		},
	})
}
