// Package c14: json flags change representation or copying, never meaning.
package c14

import (
	"bytes"
	stdjson "encoding/json"
	"fmt"
	"math/big"
	"reflect"
	"strconv"
	"strings"

	"github.com/segmentio/encoding/json"
	"verifharness/core"
	"verifharness/gen/jsondoc"
	"verifharness/gen/jtypes"
)

const defaultFlags = json.EscapeHTML | json.SortMapKeys

func generic(b []byte) (any, error) {
	d := stdjson.NewDecoder(bytes.NewReader(b))
	d.UseNumber()
	var v any
	err := d.Decode(&v)
	return v, err
}

// hasDupKeys reports whether some object of doc has two members with the same (decoded) key:
// distinct Go map keys with invalid UTF-8 are coerced to the same U+FFFD string.  For such
// documents the decoded generic value depends on the member order, so only sorted outputs can
// be compared by meaning.
func hasDupKeys(doc []byte) bool {
	dec := stdjson.NewDecoder(bytes.NewReader(doc))
	type frame struct {
		obj  bool
		key  bool
		seen map[string]bool
	}
	var st []frame
	for {
		tk, err := dec.Token()
		if err != nil {
			return false
		}
		switch v := tk.(type) {
		case stdjson.Delim:
			if v == '{' || v == '[' {
				if n := len(st); n > 0 && st[n-1].obj {
					st[n-1].key = true
				}
				st = append(st, frame{obj: v == '{', key: true, seen: map[string]bool{}})
			} else {
				st = st[:len(st)-1]
			}
			continue
		case string:
			if n := len(st); n > 0 && st[n-1].obj && st[n-1].key {
				if st[n-1].seen[v] {
					return true
				}
				st[n-1].seen[v] = true
				st[n-1].key = false
				continue
			}
		}
		if n := len(st); n > 0 && st[n-1].obj {
			st[n-1].key = true
		}
	}
}

func show(x any) string {
	s := fmt.Sprintf("%#v", x)
	if len(s) > 300 {
		s = s[:300] + "…"
	}
	return s
}

func tr(b []byte) string {
	if len(b) > 240 {
		return string(b[:240]) + "…"
	}
	return string(b)
}

func flagName(f json.AppendFlags) string {
	var p []string
	if f&json.EscapeHTML != 0 {
		p = append(p, "EscapeHTML")
	}
	if f&json.SortMapKeys != 0 {
		p = append(p, "SortMapKeys")
	}
	if f&json.TrustRawMessage != 0 {
		p = append(p, "TrustRawMessage")
	}
	if len(p) == 0 {
		return "none"
	}
	return strings.Join(p, "+")
}

func hasMap(t reflect.Type, seen map[reflect.Type]bool) bool {
	if seen[t] {
		return false
	}
	seen[t] = true
	switch t.Kind() {
	case reflect.Map, reflect.Interface:
		return true
	case reflect.Pointer, reflect.Slice, reflect.Array:
		return hasMap(t.Elem(), seen)
	case reflect.Struct:
		for i := 0; i < t.NumField(); i++ {
			if hasMap(t.Field(i).Type, seen) {
				return true
			}
		}
	}
	return false
}

// mapTypes: the six map encoders, with element types that can fail
var mapTypes = []reflect.Type{
	reflect.TypeOf(map[string]any(nil)), reflect.TypeOf(map[string]stdjson.RawMessage(nil)), reflect.TypeOf(map[string]string(nil)),
	reflect.TypeOf(map[string][]string(nil)), reflect.TypeOf(map[string]bool(nil)), reflect.TypeOf(map[string]jtypes.MErr(nil)), reflect.TypeOf(map[int]jtypes.MRaw(nil)),
	reflect.TypeOf(map[jtypes.KInt]float64(nil)), reflect.TypeOf(map[string]float64(nil)), reflect.TypeOf(map[string]map[string]stdjson.RawMessage(nil)),
	reflect.TypeOf([]map[string]any(nil)), reflect.TypeOf(struct {
		M map[string]stdjson.RawMessage
		N map[string]any
		R stdjson.RawMessage `json:"<r&>"`
	}{}),
}

func checkAppendFlags(c *core.Case, class string, v reflect.Value, rawValid bool) {
	x := v.Interface()
	var def []byte
	var defErr error
	if sig, stk := core.Guard(func() { def, defErr = json.Append(nil, x, defaultFlags) }); sig != "" {
		c.Violation(class, sig, fmt.Sprintf("Append(default) panicked on %s: %s", show(x), stk), nil)
		return
	}
	var defVal any
	if defErr == nil {
		var err error
		if defVal, err = generic(def); err != nil {
			c.Violation(class+"|"+flagName(defaultFlags), "invalid-json", fmt.Sprintf("default output %q of %s is not valid JSON: %v", tr(def), show(x), err), nil)
			return
		}
	}
	// encoding/json itself changes the meaning of a ',string' string field with the HTML
	// setting (the inner quoted string is HTML-escaped before it is quoted again), and the
	// statement requires byte equality with it: where the reference disagrees with itself
	// the meaning clause is undefined for the subsets without EscapeHTML.
	refAmbiguous := false
	{
		var b1, b2 bytes.Buffer
		e1, e2 := stdjson.NewEncoder(&b1), stdjson.NewEncoder(&b2)
		e2.SetEscapeHTML(false)
		if e1.Encode(x) == nil && e2.Encode(x) == nil {
			v1, _ := generic(b1.Bytes())
			v2, _ := generic(b2.Bytes())
			refAmbiguous = !reflect.DeepEqual(v1, v2)
		}
	}
	if refAmbiguous {
		c.Count("reference-disagrees-with-itself(html on/off)", 1)
	}
	dupKeys := defErr == nil && hasDupKeys(def)
	if dupKeys {
		c.Count("skipped.unsorted-meaning.duplicate-keys-after-utf8-coercion", 1)
	}
	for f := json.AppendFlags(0); f < 8; f++ {
		if f&json.TrustRawMessage != 0 && !rawValid {
			continue
		}
		cl := class + "|" + flagName(f)
		var out []byte
		var err error
		if sig, stk := core.Guard(func() { out, err = json.Append(nil, x, f) }); sig != "" {
			c.Violation(cl, sig, fmt.Sprintf("Append(flags=%s) panicked on %s: %s", flagName(f), show(x), stk), nil)
			continue
		}
		c.Count("appends", 1)
		if (err == nil) != (defErr == nil) {
			c.Violation(cl, fmt.Sprintf("err=%v,default-err=%v", err != nil, defErr != nil), fmt.Sprintf("Append(flags=%s) of %s: err=%v output=%q; with the default flags err=%v", flagName(f), show(x), err, tr(out), defErr),
				map[string]any{"value": show(x), "flags": flagName(f)})
			continue
		}
		if err != nil {
			continue
		}
		val, e := generic(out)
		if e != nil || !stdjson.Valid(out) {
			c.Violation(cl, "invalid-json", fmt.Sprintf("Append(flags=%s) of %s returned %q: %v", flagName(f), show(x), tr(out), e), map[string]any{"value": show(x), "flags": flagName(f)})
			continue
		}
		if !reflect.DeepEqual(val, defVal) && !(refAmbiguous && f&json.EscapeHTML == 0) && !(f&json.SortMapKeys == 0 && dupKeys) {
			c.Violation(cl, "meaning-diff", fmt.Sprintf("Append(flags=%s) of %s = %q decodes differently from the default output %q", flagName(f), show(x), tr(out), tr(def)), map[string]any{"value": show(x), "flags": flagName(f)})
			continue
		}
		// SortMapKeys off: only a permutation -> same length as the sorted variant
		if f&json.SortMapKeys == 0 {
			if sorted, e2 := json.Append(nil, x, f|json.SortMapKeys); e2 == nil && len(sorted) != len(out) {
				c.Violation(cl, "not-a-permutation", fmt.Sprintf("unsorted output %q and sorted output %q differ in length", tr(out), tr(sorted)), map[string]any{"value": show(x)})
			}
		}
		// EscapeHTML off: bytes equal std Encoder with SetEscapeHTML(false)
		if f == json.SortMapKeys {
			var buf bytes.Buffer
			e := stdjson.NewEncoder(&buf)
			e.SetEscapeHTML(false)
			if e.Encode(x) == nil {
				want := bytes.TrimSuffix(buf.Bytes(), []byte("\n"))
				if !bytes.Equal(out, want) {
					c.Violation(cl, "bytes-diff-vs-std-nohtml", fmt.Sprintf("Append(SortMapKeys) of %s = %q, std Encoder(SetEscapeHTML(false)) = %q", show(x), tr(out), tr(want)), map[string]any{"value": show(x)})
				}
			}
		}
		// Encoder setters == Append flags
		if c.Index%4 == 0 {
			var buf bytes.Buffer
			enc := json.NewEncoder(&buf)
			enc.SetEscapeHTML(f&json.EscapeHTML != 0)
			enc.SetSortMapKeys(f&json.SortMapKeys != 0)
			enc.SetTrustRawMessage(f&json.TrustRawMessage != 0)
			nl := c.Index%8 == 0
			enc.SetAppendNewline(nl)
			if e := enc.Encode(x); e != nil {
				c.Violation(cl, "encoder-setters-err", fmt.Sprintf("Encoder with setters for %s failed: %v", flagName(f), e), nil)
			} else {
				got := buf.Bytes()
				if nl {
					if !bytes.HasSuffix(got, []byte("\n")) {
						c.Violation(cl, "encoder-newline-missing", "SetAppendNewline(true) wrote no newline", nil)
					}
					got = bytes.TrimSuffix(got, []byte("\n"))
				}
				if f&json.SortMapKeys != 0 && !bytes.Equal(got, out) {
					c.Violation(cl, "encoder-setters-diff", fmt.Sprintf("Encoder setters %q vs Append flags %q", tr(got), tr(out)), nil)
				} else if len(got) != len(out) {
					c.Violation(cl, "encoder-setters-diff", fmt.Sprintf("Encoder setters %q vs Append flags %q", tr(got), tr(out)), nil)
				}
			}
		}
	}
	// ParseFlags: copy / case-matching flags restore the same value
	if defErr == nil {
		checkParseFlags(c, class, v.Type(), def)
	}
}

var copyFlags = []json.ParseFlags{json.DontCopyString, json.DontCopyNumber, json.DontCopyRawMessage, json.DontMatchCaseInsensitiveStructFields}

func checkParseFlags(c *core.Case, class string, t reflect.Type, doc []byte) {
	base := reflect.New(t)
	rest, err0 := json.Parse(append([]byte(nil), doc...), base.Interface(), 0)
	if err0 != nil || len(rest) != 0 {
		c.Count("parse.base-error", 1)
	}
	for m := 1; m < 16; m++ {
		var fl json.ParseFlags
		var names []string
		for i, f := range copyFlags {
			if m&(1<<i) != 0 {
				fl |= f
				names = append(names, []string{"DontCopyString", "DontCopyNumber", "DontCopyRawMessage", "DontMatchCaseInsensitive"}[i])
			}
		}
		if (m+c.Index)%3 != 0 && m != 15 && m != 7 {
			continue
		}
		in := append([]byte(nil), doc...)
		got := reflect.New(t)
		var err error
		if sig, stk := core.Guard(func() { _, err = json.Parse(in, got.Interface(), fl) }); sig != "" {
			c.Violation(class+"|parse", sig, fmt.Sprintf("Parse(%q, flags=%v) panicked: %s", tr(doc), names, stk), nil)
			continue
		}
		c.Count("parses", 1)
		if (err == nil) != (err0 == nil) {
			c.Violation(class+"|parse:"+strings.Join(names, "+"), "error-diff", fmt.Sprintf("Parse(%q) into %s: err=%v with flags %v, err=%v without", tr(doc), t, err, names, err0), map[string]any{"doc": string(doc), "type": t.String()})
			continue
		}
		if err == nil && !reflect.DeepEqual(got.Elem().Interface(), base.Elem().Interface()) {
			c.Violation(class+"|parse:"+strings.Join(names, "+"), "value-diff", fmt.Sprintf("Parse(%q) into %s with flags %v = %s, without flags %s", tr(doc), t, names, show(got.Elem().Interface()), show(base.Elem().Interface())), map[string]any{"doc": string(doc), "type": t.String()})
		}
		if !bytes.Equal(in, doc) {
			c.Violation(class+"|parse:"+strings.Join(names, "+"), "input-modified", fmt.Sprintf("Parse modified its input %q -> %q", tr(doc), tr(in)), nil)
		}
	}
	// Decoder setters == Parse flags
	if c.Index%3 == 0 {
		dec := json.NewDecoder(bytes.NewReader(doc))
		dec.ZeroCopy()
		dec.DontMatchCaseInsensitiveStructFields()
		got := reflect.New(t)
		err := dec.Decode(got.Interface())
		if (err == nil) != (err0 == nil) || (err == nil && !reflect.DeepEqual(got.Elem().Interface(), base.Elem().Interface())) {
			c.Violation(class+"|decoder-setters", "value-diff", fmt.Sprintf("Decoder.ZeroCopy()+DontMatchCaseInsensitive on %q into %s: %s err=%v; Parse(0): %s err=%v", tr(doc), t, show(got.Elem().Interface()), err, show(base.Elem().Interface()), err0), nil)
		}
	}
}

func runValues(c *core.Case) {
	rawValid := c.Index%3 != 0
	var t reflect.Type
	switch {
	case c.Index%5 < 2:
		t = mapTypes[c.Rng.Intn(len(mapTypes))]
	case c.Index%5 == 2:
		t = jtypes.DecodeLibrary[c.Rng.Intn(len(jtypes.DecodeLibrary))]
	default:
		cfg := jtypes.DefaultCfg
		cfg.ErrLeaves = true
		t = jtypes.New(c.Rng.Fork(1), cfg).Type(0)
	}
	class := "values"
	if !rawValid {
		class = "values-with-invalid-raw"
	}
	c.Journal(class)
	f := &jtypes.Filler{R: c.Rng.Fork(2), NoNaN: c.Index%4 != 0, RawValid: rawValid, MaxLen: 8}
	v := f.NewValue(t)
	checkAppendFlags(c, class, v, rawValid)
	c.Distinct(core.Mix(core.HashString(t.String()), uint64(c.Index)), true)
	c.Sample(0, map[string]any{"sub": "values", "type": jtypes.TypeString(t), "append_flag_subsets": 8, "parse_flag_subsets": "rotating over 15"})
}

// cyclic values: an error with the default flags, hence an error with every subset ----------------

type cycNode struct {
	M map[string]any
	L []any
}

func cyclicValue(shape int) (string, any) {
	switch shape {
	case 0:
		m := map[string]any{"a": 1}
		m["self"] = m
		return "map-self", m
	case 1:
		a, b := map[string]any{"x": "y"}, map[string]any{}
		a["b"], b["a"] = b, a
		return "two-maps", a
	case 2:
		m := map[string]any{}
		m["k"] = map[string]any{"deeper": map[string]any{"back": m}}
		return "map-in-struct", cycNode{M: m}
	case 3:
		m := map[string]any{}
		m["k"] = []any{1, m}
		return "map-through-slice", m
	case 4:
		m := map[string]any{}
		n := &cycNode{M: m}
		m["n"] = n
		return "map-through-pointer", n
	default:
		m := map[string]any{}
		m["m"] = m
		return "map-in-slice", []any{"x", m}
	}
}

func runCyclic(c *core.Case) {
	name, x := cyclicValue(c.Index % 6)
	for m := 0; m < 8; m++ {
		fl := json.AppendFlags(0)
		if m&1 != 0 {
			fl |= json.EscapeHTML
		}
		if m&2 != 0 {
			fl |= json.SortMapKeys
		}
		if m&4 != 0 {
			fl |= json.TrustRawMessage
		}
		cl := "cyclic|" + name + "|" + flagName(fl)
		c.Journal(cl)
		var err error
		if sig, stk := core.Guard(func() { _, err = json.Append(make([]byte, 0, 64), x, fl) }); sig != "" {
			c.Violation(cl, sig, "Append of a cyclic value panicked: "+stk, nil)
			continue
		}
		if err == nil {
			c.Violation(cl, "no-error", fmt.Sprintf("Append of a cyclic value (%s) succeeds with flags %s; with the default flags it is an error", name, flagName(fl)), nil)
		}
		c.Count("cyclic.appends", 1)
	}
	c.Distinct(uint64(c.Index%6)+77, true)
}

// number modes ------------------------------------------------------------------------------

var numFlags = []json.ParseFlags{json.UseNumber, json.UseBigInt, json.UseInt64, json.UseUint64}
var numFlagNames = []string{"UseNumber", "UseBigInt", "UseInt64", "UseUint64"}

func expectNumber(lit string, fl json.ParseFlags) (typ string, check func(got any) bool) {
	isInt := !strings.ContainsAny(lit, ".eE")
	neg := strings.HasPrefix(lit, "-")
	if isInt {
		if fl&json.UseUint64 != 0 && !neg {
			if u, err := strconv.ParseUint(lit, 10, 64); err == nil {
				return "uint64", func(g any) bool { v, ok := g.(uint64); return ok && v == u }
			}
		}
		if fl&json.UseInt64 != 0 {
			if i, err := strconv.ParseInt(lit, 10, 64); err == nil {
				return "int64", func(g any) bool { v, ok := g.(int64); return ok && v == i }
			}
		}
		if fl&json.UseBigInt != 0 {
			want, _ := new(big.Int).SetString(lit, 10)
			return "*big.Int", func(g any) bool { v, ok := g.(*big.Int); return ok && want != nil && v.Cmp(want) == 0 }
		}
	}
	if fl&json.UseNumber != 0 {
		return "json.Number", func(g any) bool { v, ok := g.(json.Number); return ok && string(v) == lit }
	}
	f, err := strconv.ParseFloat(lit, 64)
	if err != nil {
		return "error", nil
	}
	return "float64", func(g any) bool { v, ok := g.(float64); return ok && v == f }
}

// Dyn is a named interface type without methods: decoded like interface{}.
type Dyn interface{}

type dynHolder struct {
	N Dyn
	P any
}

func runNumbers(c *core.Case) {
	c.Journal("number-modes")
	for k := 0; k < 24; k++ {
		lit := jsondoc.Number(c.Rng)
		for m := 0; m < 16; m++ {
			var fl json.ParseFlags
			var names []string
			for i := range numFlags {
				if m&(1<<i) != 0 {
					fl |= numFlags[i]
					names = append(names, numFlagNames[i])
				}
			}
			if c.Rng.Chance(1, 3) {
				fl |= json.DontCopyNumber
			}
			wantType, chk := expectNumber(lit, fl)
			for ctx, doc := range []string{lit, "[" + lit + "]", `{"k":` + lit + `}`, " " + lit + " ", `{"N":` + lit + `}`, `{"P":` + lit + `}`, lit, "[" + lit + "]", `{"k":` + lit + `}`} {
				var v any
				var err error
				var got any
				switch ctx {
				case 4, 5: // fields of a named empty interface type and of the plain one
					var h dynHolder
					_, err = json.Parse([]byte(doc), &h, fl)
					got = h.N
					if ctx == 5 {
						got = h.P
					}
				case 6: // behind a pointer the target interface already holds
					var inner any
					var x any = &inner
					_, err = json.Parse([]byte(doc), &x, fl)
					got = inner
					if p, ok := x.(*any); err == nil && (!ok || p != &inner) {
						c.Violation("number-modes|held-pointer", "pointer-replaced", fmt.Sprintf("Parse(%q) into an interface holding *interface{} replaced the pointer by %T", doc, x), nil)
					}
				case 7: // elements and map values of the named type
					var a []Dyn
					_, err = json.Parse([]byte(doc), &a, fl)
					if len(a) == 1 {
						got = a[0]
					}
				case 8:
					var mm map[string]Dyn
					_, err = json.Parse([]byte(doc), &mm, fl)
					got = mm["k"]
				default:
					_, err = json.Parse([]byte(doc), &v, fl)
					got = v
				}
				switch ctx {
				case 1:
					if a, ok := v.([]any); ok && len(a) == 1 {
						got = a[0]
					}
				case 2:
					if mm, ok := v.(map[string]any); ok {
						got = mm["k"]
					}
				}
				cl := "number-modes|" + strings.Join(names, "+")
				if len(names) == 0 {
					cl = "number-modes|none"
				}
				if chk == nil {
					if err == nil {
						c.Violation(cl, "accepted-out-of-range-float", fmt.Sprintf("Parse(%q, %v) = %#v, strconv.ParseFloat fails", doc, names, got), map[string]any{"doc": doc, "flags": names})
					}
					continue
				}
				if err != nil {
					c.Violation(cl, "error", fmt.Sprintf("Parse(%q, %v) failed: %v; expected %s", doc, names, err, wantType), map[string]any{"doc": doc, "flags": names})
					continue
				}
				if !chk(got) {
					c.Violation(cl, "want-"+wantType+",got-"+fmt.Sprintf("%T", got), fmt.Sprintf("Parse(%q, %v) = %#v (%T), expected %s with the value of the literal", doc, names, got, got, wantType), map[string]any{"doc": doc, "flags": names})
				}
				c.Count("number.parses", 1)
			}
		}
		c.Distinct(core.HashString("n"+lit), true)
	}
	c.Sample(0, map[string]any{"sub": "number-modes", "literals": 24, "flag_subsets": 16, "contexts": 9})
}

func init() {
	core.Register(&core.Monitor{
		Prop:    "C14",
		Rule:    "cyclic: six values with a reference cycle through map[string]any (alone, through slices, pointers, struct fields) x all 8 flag subsets: an error, as with the default flags. values: a generated / library / map-heavy value (the six map encoders, elements that fail, RawMessages valid or - when TrustRawMessage is not in the subset - invalid, HTML-carrying keys) is appended under all 8 AppendFlags subsets: err==nil iff it is with the default flags; output valid JSON decoding (encoding/json, UseNumber) to the same generic value as the default output; SortMapKeys off: same length as the sorted output (a permutation); EscapeHTML off: bytes equal encoding/json's Encoder with SetEscapeHTML(false); Encoder setters equal the flag word. The default output is parsed back under rotating subsets of DontCopyString/DontCopyNumber/DontCopyRawMessage/DontMatchCaseInsensitiveStructFields (and through Decoder.ZeroCopy) and must be deeply equal to the flag-less parse with the input untouched. number-modes (also in fields, elements and map values of a named empty interface type, and behind a pointer the target interface already holds): number literals (boundaries of int64/uint64, beyond 64 bits, fractions, exponents, -0) in 4 contexts under all 16 subsets of UseNumber/UseBigInt/UseInt64/UseUint64: dynamic type per the documented precedence and exact numeric value (big.Int / strconv).",
		Trusted: []string{"encoding/json (1.23.5) for generic decoding and the EscapeHTML(false) bytes", "math/big and strconv for numeric values", "the precedence table in expectNumber, transcribed from the flag documentation"},
		Subs: []core.Sub{
			{Name: "values", N: core.Const(60000, 1500000), Run: runValues},
			{Name: "cyclic", N: core.Const(6, 6), Run: runCyclic},
			{Name: "number-modes", N: core.Const(3000, 60000), Run: runNumbers},
		},
	})
}
