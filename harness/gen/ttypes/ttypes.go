// Package ttypes generates thrift-tagged Go struct types and values at run time, maps a Go value
// to the logical thrift content the documented Go-to-thrift mapping prescribes for it (a
// tspec.Node) and provides the equality of the round-trip statement.
package ttypes

import (
	"fmt"
	"math"
	"reflect"
	"sort"
	"strconv"
	"strings"

	"verifharness/core"
	"verifharness/gen/tspec"
)

// Cfg bounds the generated types.
type Cfg struct {
	MaxDepth  int
	MaxFields int
	NoMaps    bool // no maps or sets (byte-exact comparisons)
	NoFloat32 bool
	Unions    bool
	Embedding bool
}

type Gen struct {
	R   *core.Rand
	Cfg Cfg
}

func New(r *core.Rand, cfg Cfg) *Gen {
	if cfg.MaxDepth == 0 {
		cfg.MaxDepth = 3
	}
	if cfg.MaxFields == 0 {
		cfg.MaxFields = 8
	}
	return &Gen{R: r, Cfg: cfg}
}

var scalars = []reflect.Type{
	reflect.TypeOf(false), reflect.TypeOf(int8(0)), reflect.TypeOf(int16(0)), reflect.TypeOf(int32(0)), reflect.TypeOf(int64(0)), reflect.TypeOf(int(0)),
	reflect.TypeOf(float64(0)), reflect.TypeOf(""), reflect.TypeOf([]byte(nil)),
}

var keyTypes = []reflect.Type{
	reflect.TypeOf(false), reflect.TypeOf(int8(0)), reflect.TypeOf(int16(0)), reflect.TypeOf(int32(0)), reflect.TypeOf(int64(0)), reflect.TypeOf(int(0)), reflect.TypeOf(""), reflect.TypeOf(float64(0)),
}

var emptyStruct = reflect.TypeOf(struct{}{})

// Void is a named zero-size type: map[K]Void is a set just like map[K]struct{}.
type Void struct{}

// setElem picks the zero-size element type of a set.
func setElem(r *core.Rand) reflect.Type {
	switch r.Intn(6) {
	case 0:
		return reflect.TypeOf(Void{})
	case 1:
		return reflect.TypeOf([0]int{})
	}
	return emptyStruct
}

// ids picks n distinct positive field ids in one of the layouts of the statement.
func (g *Gen) ids(n int) []int {
	r := g.R
	out := make([]int, 0, n)
	used := map[int]bool{}
	add := func(id int) bool {
		if id < 1 || id > math.MaxInt16 || used[id] {
			return false
		}
		used[id] = true
		out = append(out, id)
		return true
	}
	layout := r.Intn(7)
	cur := 0
	switch layout {
	case 6:
		cur = math.MaxInt16 - 40*n - 1 // the top of the id range
	case 5:
		cur = []int{14, 15, 16, 62, 63, 64, 126, 127, 128, 255, 256, 1000}[r.Intn(12)]
	}
	for len(out) < n {
		var step int
		switch layout {
		case 0: // consecutive from 1
			step = 1
		case 1: // small gaps, inside the delta short form
			step = r.Range(1, 15)
		case 2: // gaps around the short-form boundary
			step = []int{1, 14, 15, 16, 17, 30, 31, 32}[r.Intn(8)]
		case 3: // wide: more than one word of the seen bitmap
			step = []int{1, 2, 40, 63, 64, 65, 100, 128, 129, 1000}[r.Intn(10)]
		case 4: // anything
			step = r.Range(1, 3000)
		default:
			step = r.Range(1, 40)
		}
		cur += step
		if cur > math.MaxInt16 {
			cur = r.Range(1, 1000)
		}
		for !add(cur) {
			cur++
			if cur > math.MaxInt16 {
				cur = 1
			}
		}
	}
	// declaration order is independent of id order
	if r.Bool() {
		for i := len(out) - 1; i > 0; i-- {
			j := r.Intn(i + 1)
			out[i], out[j] = out[j], out[i]
		}
	}
	return out
}

// fieldType picks the Go type of a field.
func (g *Gen) fieldType(depth int) reflect.Type {
	r := g.R
	for {
		switch k := r.Intn(20); {
		case k < 9:
			t := scalars[r.Intn(len(scalars))]
			return t
		case k == 9 && !g.Cfg.NoFloat32:
			return reflect.TypeOf(float32(0))
		case k == 10: // pointer to scalar
			return reflect.PointerTo(scalars[r.Intn(len(scalars)-1)])
		case k == 11 && depth < g.Cfg.MaxDepth:
			return g.Struct(depth + 1)
		case k == 12 && depth < g.Cfg.MaxDepth:
			return reflect.PointerTo(g.Struct(depth + 1))
		case k < 16:
			return reflect.SliceOf(g.elemType(depth + 1))
		case k < 18 && !g.Cfg.NoMaps:
			return reflect.MapOf(keyTypes[r.Intn(len(keyTypes))], setElem(r))
		case k < 20 && !g.Cfg.NoMaps:
			return reflect.MapOf(keyTypes[r.Intn(len(keyTypes))], g.elemType(depth+1))
		}
	}
}

func (g *Gen) elemType(depth int) reflect.Type {
	r := g.R
	for {
		switch k := r.Intn(14); {
		case k < 8:
			return scalars[r.Intn(len(scalars))]
		case k < 10 && depth < g.Cfg.MaxDepth:
			return g.Struct(depth + 1)
		case k == 10 && depth < g.Cfg.MaxDepth:
			return reflect.PointerTo(g.Struct(depth + 1))
		case k == 11 && depth < g.Cfg.MaxDepth:
			return reflect.SliceOf(g.elemType(depth + 1))
		case k == 12 && depth < g.Cfg.MaxDepth && !g.Cfg.NoMaps:
			return reflect.MapOf(keyTypes[r.Intn(len(keyTypes))], g.elemType(depth+1))
		case k == 13 && !g.Cfg.NoMaps:
			return reflect.MapOf(keyTypes[r.Intn(len(keyTypes))], setElem(r))
		}
	}
}

// Struct generates a thrift struct type.
func (g *Gen) Struct(depth int) reflect.Type {
	r := g.R
	n := r.Intn(g.Cfg.MaxFields + 1)
	if r.Chance(1, 12) {
		n = r.Range(20, 70) // many fields: more than one word of required bits
	}
	if g.Cfg.Unions && depth > 0 && r.Chance(1, 6) {
		return g.Union(depth)
	}
	ids := g.ids(n)
	fs := make([]reflect.StructField, 0, n+1)
	for i := 0; i < n; i++ {
		var ft reflect.Type
		if n > 12 {
			ft = scalars[r.Intn(len(scalars))]
		} else {
			ft = g.fieldType(depth)
		}
		tag := strconv.Itoa(ids[i])
		switch r.Intn(6) {
		case 0, 1:
			tag += ",required"
		case 2:
			tag += ",optional"
		}
		switch ft.Kind() {
		case reflect.Int, reflect.Int8, reflect.Int16, reflect.Int32, reflect.Int64:
			if r.Chance(1, 5) {
				tag += ",enum"
			}
		}
		fs = append(fs, reflect.StructField{Name: fmt.Sprintf("F%d", i), Type: ft, Tag: reflect.StructTag(`thrift:"` + tag + `"`)})
	}
	if r.Chance(1, 10) { // a field without tag and an unexported one are ignored
		fs = append(fs, reflect.StructField{Name: "Untagged", Type: reflect.TypeOf(0)})
	}
	if g.Cfg.Embedding && len(fs) >= 2 && r.Chance(1, 5) {
		fs = g.embed(fs)
	}
	return reflect.StructOf(fs)
}

// embed moves a run of fields into an anonymous struct embedded 1-5 levels deep (by value or by
// pointer at each level); the thrift fields of the outer struct stay the same.
func (g *Gen) embed(fs []reflect.StructField) []reflect.StructField {
	r := g.R
	lo := r.Intn(len(fs) - 1)
	hi := r.Range(lo+2, len(fs))
	inner := append([]reflect.StructField(nil), fs[lo:hi]...)
	levels := r.Range(1, 5)
	t := reflect.StructOf(inner)
	for l := 1; l < levels; l++ {
		ft := t
		if r.Chance(1, 3) {
			ft = reflect.PointerTo(t)
		}
		t = reflect.StructOf([]reflect.StructField{{Name: fmt.Sprintf("L%d", l), Type: ft, Anonymous: true}})
	}
	ft := t
	if r.Chance(1, 3) {
		ft = reflect.PointerTo(t)
	}
	out := append([]reflect.StructField(nil), fs[:lo]...)
	out = append(out, reflect.StructField{Name: "Emb", Type: ft, Anonymous: true})
	return append(out, fs[hi:]...)
}

// Union generates a union: optional members plus the interface field that points at the one set.
func (g *Gen) Union(depth int) reflect.Type {
	r := g.R
	n := r.Range(1, 5)
	ids := g.ids(n)
	fs := make([]reflect.StructField, 0, n+1)
	for i := 0; i < n; i++ {
		var ft reflect.Type
		switch r.Intn(4) {
		case 0:
			ft = reflect.SliceOf(scalars[r.Intn(len(scalars))])
		case 1:
			if depth < g.Cfg.MaxDepth {
				ft = g.plainStruct(depth + 1)
				break
			}
			fallthrough
		default:
			ft = scalars[r.Intn(len(scalars))]
		}
		fs = append(fs, reflect.StructField{Name: fmt.Sprintf("F%d", i), Type: ft, Tag: reflect.StructTag(`thrift:"` + strconv.Itoa(ids[i]) + `"`)})
	}
	fs = append(fs, reflect.StructField{Name: "U", Type: reflect.TypeOf((*any)(nil)).Elem(), Tag: `thrift:",union"`})
	return reflect.StructOf(fs)
}

func (g *Gen) plainStruct(depth int) reflect.Type {
	save := g.Cfg.Unions
	g.Cfg.Unions = false
	t := g.Struct(depth)
	g.Cfg.Unions = save
	return t
}

// ---- field table ------------------------------------------------------------------------------

type FieldInfo struct {
	Index    []int
	ID       int16
	Required bool
	Enum     bool
	Type     reflect.Type
}

// Fields lists the thrift fields of a struct type (tagged, exported; embedded structs
// flattened) and the index of its union member, following the documented tag syntax.
func Fields(t reflect.Type) (fs []FieldInfo, union []int) {
	var walk func(t reflect.Type, index []int)
	walk = func(t reflect.Type, index []int) {
		for i := 0; i < t.NumField(); i++ {
			f := t.Field(i)
			if f.PkgPath != "" && !f.Anonymous {
				continue
			}
			idx := append(append([]int{}, index...), i)
			if f.Anonymous {
				ft := f.Type
				for ft.Kind() == reflect.Pointer {
					ft = ft.Elem()
				}
				if ft.Kind() == reflect.Struct {
					walk(ft, idx)
					continue
				}
			}
			tag := f.Tag.Get("thrift")
			if tag == "" {
				continue
			}
			parts := strings.Split(tag, ",")
			fi := FieldInfo{Index: idx, Type: f.Type}
			isUnion := false
			for _, o := range parts[1:] {
				switch o {
				case "required":
					fi.Required = true
				case "enum":
					fi.Enum = true
				case "union":
					isUnion = true
				}
			}
			if isUnion {
				union = idx
				continue
			}
			id, _ := strconv.Atoi(parts[0])
			fi.ID = int16(id)
			fs = append(fs, fi)
		}
	}
	walk(t, nil)
	sort.SliceStable(fs, func(i, j int) bool { return fs[i].ID < fs[j].ID })
	return fs, union
}

func IsUnion(t reflect.Type) bool {
	if t.Kind() != reflect.Struct {
		return false
	}
	_, u := Fields(t)
	return u != nil
}

// KindOf is the documented Go-kind to thrift-type mapping.
func KindOf(t reflect.Type) tspec.Kind {
	switch t.Kind() {
	case reflect.Bool:
		return tspec.BOOL
	case reflect.Int8:
		return tspec.I8
	case reflect.Int16:
		return tspec.I16
	case reflect.Int32:
		return tspec.I32
	case reflect.Int64, reflect.Int:
		return tspec.I64
	case reflect.Float32, reflect.Float64:
		return tspec.DOUBLE
	case reflect.String:
		return tspec.BINARY
	case reflect.Slice:
		if t.Elem().Kind() == reflect.Uint8 {
			return tspec.BINARY
		}
		return tspec.LIST
	case reflect.Map:
		if t.Elem().Size() == 0 {
			return tspec.SET
		}
		return tspec.MAP
	case reflect.Struct:
		return tspec.STRUCT
	case reflect.Pointer:
		return KindOf(t.Elem())
	}
	panic("ttypes: unsupported type " + t.String())
}

// fieldByIndex walks a field index path through (possibly nil) embedded pointers; ok=false
// when a pointer on the way is nil.
func fieldByIndex(v reflect.Value, index []int) (reflect.Value, bool) {
	for _, i := range index {
		if v.Kind() == reflect.Pointer {
			if v.IsNil() {
				return reflect.Value{}, false
			}
			v = v.Elem()
		}
		v = v.Field(i)
	}
	return v, true
}

// TreeOf maps a Go value to its logical thrift content: pointers are followed (a nil pointer
// inside a collection stands for the zero value), struct fields that are nil pointers, or zero
// and not required, are absent; enum fields are I32.
func TreeOf(v reflect.Value) tspec.Node { return treeOf(v, false) }

func treeOf(v reflect.Value, enum bool) tspec.Node {
	t := v.Type()
	if t.Kind() == reflect.Pointer {
		if v.IsNil() {
			return treeOf(reflect.Zero(t.Elem()), enum)
		}
		return treeOf(v.Elem(), enum)
	}
	k := KindOf(t)
	n := tspec.Node{K: k}
	switch k {
	case tspec.BOOL:
		n.B = v.Bool()
	case tspec.I8, tspec.I16, tspec.I32, tspec.I64:
		n.I = v.Int()
		if enum {
			n.K = tspec.I32
			n.I = int64(int32(v.Int()))
		}
	case tspec.DOUBLE:
		n.F = v.Float()
	case tspec.BINARY:
		if t.Kind() == reflect.String {
			n.S = []byte(v.String())
		} else {
			n.S = append([]byte{}, v.Bytes()...)
		}
	case tspec.LIST:
		n.Elem = KindOf(t.Elem())
		for i := 0; i < v.Len(); i++ {
			n.Items = append(n.Items, treeOf(v.Index(i), false))
		}
	case tspec.SET:
		n.Elem = KindOf(t.Key())
		for _, k := range v.MapKeys() {
			n.Items = append(n.Items, treeOf(k, false))
		}
	case tspec.MAP:
		n.Key, n.Val = KindOf(t.Key()), KindOf(t.Elem())
		it := v.MapRange()
		for it.Next() {
			n.Pairs = append(n.Pairs, [2]tspec.Node{treeOf(it.Key(), false), treeOf(it.Value(), false)})
		}
	case tspec.STRUCT:
		fs, _ := Fields(t)
		for _, f := range fs {
			x, ok := fieldByIndex(v, f.Index)
			if !ok {
				continue
			}
			if x.Kind() == reflect.Pointer && x.IsNil() {
				continue
			}
			if !f.Required && x.IsZero() {
				continue
			}
			n.Fields = append(n.Fields, tspec.Field{ID: f.ID, V: treeOf(x, f.Enum)})
		}
	}
	return n
}

// ---- values ------------------------------------------------------------------------------------

type Filler struct {
	R      *core.Rand
	MaxLen int
	NoNaN  bool
}

func (f *Filler) NewValue(t reflect.Type) reflect.Value {
	v := reflect.New(t).Elem()
	f.fill(v, 0, false, false)
	return v
}

func (f *Filler) length() int {
	r := f.R
	max := f.MaxLen
	if max == 0 {
		max = 20
	}
	switch r.Intn(8) {
	case 0:
		return 0
	case 1:
		return []int{1, 13, 14, 15, 16, 17}[r.Intn(6)] % (max + 1)
	default:
		return r.Intn(4)
	}
}

// fill sets v to a random value; required: the value must count as "set"; key: usable as map key.
func (f *Filler) fill(v reflect.Value, depth int, enum, key bool) {
	r := f.R
	t := v.Type()
	switch t.Kind() {
	case reflect.Bool:
		v.SetBool(r.Bool())
	case reflect.Int8, reflect.Int16, reflect.Int32, reflect.Int64, reflect.Int:
		x := r.Int64()
		bits := t.Bits()
		if enum && bits > 32 {
			bits = 32
		}
		if bits < 64 {
			switch r.Intn(4) {
			case 0:
				x = int64(1)<<(uint(bits)-1) - 1
			case 1:
				x = -(int64(1) << (uint(bits) - 1))
			default:
				x = x << (64 - uint(bits)) >> (64 - uint(bits))
			}
		}
		v.SetInt(x)
	case reflect.Float32:
		v.SetFloat(float64(r.Float32(false)))
	case reflect.Float64:
		x := r.Float(!f.NoNaN && !key)
		v.SetFloat(x)
	case reflect.String:
		v.SetString(r.String(12))
	case reflect.Slice:
		if t.Elem().Kind() == reflect.Uint8 {
			if r.Chance(1, 6) {
				return
			}
			v.SetBytes(r.Bytes(r.Intn(10)))
			return
		}
		if r.Chance(1, 6) {
			return // nil
		}
		n := f.length()
		if depth > 2 && n > 3 {
			n = 3
		}
		s := reflect.MakeSlice(t, n, n)
		for i := 0; i < n; i++ {
			f.fill(s.Index(i), depth+1, false, false)
		}
		v.Set(s)
	case reflect.Map:
		if r.Chance(1, 6) {
			return
		}
		n := r.Intn(4)
		if r.Chance(1, 8) {
			n = r.Range(14, 17)
		}
		m := reflect.MakeMapWithSize(t, n)
		for i := 0; i < n; i++ {
			k := reflect.New(t.Key()).Elem()
			f.fill(k, depth+1, false, true)
			e := reflect.New(t.Elem()).Elem()
			f.fill(e, depth+1, false, false)
			m.SetMapIndex(k, e)
		}
		v.Set(m)
	case reflect.Pointer:
		// pointers inside collections are never nil (a nil element cannot be represented)
		p := reflect.New(t.Elem())
		f.fill(p.Elem(), depth, enum, key)
		v.Set(p)
	case reflect.Struct:
		fs, union := Fields(t)
		if union != nil {
			f.fillUnion(v, fs, union, depth)
			return
		}
		nilEmb := map[string]bool{}
		for _, fi := range fs { // an embedded pointer above a required field is never left nil
			if fi.Required {
				for d := range fi.Index {
					nilEmb["!"+fmt.Sprint(fi.Index[:d])] = true
				}
			}
		}
		for _, fi := range fs {
			x, ok := f.fieldAlloc(v, fi.Index, nilEmb)
			if !ok {
				continue // inside an embedded pointer left nil
			}
			if x.Kind() == reflect.Pointer && !fi.Required && r.Chance(1, 3) {
				continue // nil: absent
			}
			if !fi.Required && x.Kind() != reflect.Pointer && r.Chance(1, 5) {
				continue // zero: absent
			}
			f.fill(x, depth+1, fi.Enum, false)
		}
	}
}

// fieldAlloc walks an index path, allocating embedded pointers on the way (or, once per
// pointer, deciding to leave it nil, which makes all fields below it absent).
func (f *Filler) fieldAlloc(v reflect.Value, index []int, nilEmb map[string]bool) (reflect.Value, bool) {
	for d, i := range index {
		if v.Kind() == reflect.Pointer {
			key := fmt.Sprint(index[:d])
			if v.IsNil() {
				if nilEmb[key] {
					return reflect.Value{}, false
				}
				if !nilEmb["!"+key] && f.R.Chance(1, 4) {
					nilEmb[key] = true
					return reflect.Value{}, false
				}
				v.Set(reflect.New(v.Type().Elem()))
			}
			v = v.Elem()
		}
		v = v.Field(i)
	}
	return v, true
}

func (f *Filler) fillUnion(v reflect.Value, fs []FieldInfo, union []int, depth int) {
	r := f.R
	if len(fs) == 0 || r.Chance(1, 6) {
		return // nothing set
	}
	fi := fs[r.Intn(len(fs))]
	x := v.FieldByIndex(fi.Index)
	for try := 0; try < 8; try++ {
		f.fill(x, depth+1, fi.Enum, false)
		if !x.IsZero() {
			break
		}
	}
	if x.IsZero() {
		return
	}
	v.FieldByIndex(union).Set(x.Addr())
}

// ---- equality ----------------------------------------------------------------------------------

// Equal is the equality of the round-trip statement: nil == empty for slices and maps, floats
// equal when == or both NaN, untagged/unexported fields ignored, a union's interface member
// compared through the pointer it holds.
func Equal(a, b reflect.Value) (bool, string) { return eq(a, b, "") }

func eq(a, b reflect.Value, path string) (bool, string) {
	if a.Type() != b.Type() {
		return false, path + ": types differ: " + a.Type().String() + " vs " + b.Type().String()
	}
	switch a.Kind() {
	case reflect.Float32, reflect.Float64:
		x, y := a.Float(), b.Float()
		if x == y || (math.IsNaN(x) && math.IsNaN(y)) {
			return true, ""
		}
		return false, fmt.Sprintf("%s: %v != %v", path, x, y)
	case reflect.Bool:
		if a.Bool() != b.Bool() {
			return false, fmt.Sprintf("%s: %v != %v", path, a.Bool(), b.Bool())
		}
	case reflect.Int, reflect.Int8, reflect.Int16, reflect.Int32, reflect.Int64:
		if a.Int() != b.Int() {
			return false, fmt.Sprintf("%s: %d != %d", path, a.Int(), b.Int())
		}
	case reflect.String:
		if a.String() != b.String() {
			return false, fmt.Sprintf("%s: %q != %q", path, trunc(a.String()), trunc(b.String()))
		}
	case reflect.Slice:
		if a.Len() != b.Len() {
			return false, fmt.Sprintf("%s: len %d != %d", path, a.Len(), b.Len())
		}
		for i := 0; i < a.Len(); i++ {
			if ok, d := eq(a.Index(i), b.Index(i), fmt.Sprintf("%s[%d]", path, i)); !ok {
				return false, d
			}
		}
	case reflect.Uint8:
		if a.Uint() != b.Uint() {
			return false, fmt.Sprintf("%s: %d != %d", path, a.Uint(), b.Uint())
		}
	case reflect.Map:
		if a.Len() != b.Len() {
			return false, fmt.Sprintf("%s: map len %d != %d", path, a.Len(), b.Len())
		}
		it := a.MapRange()
		for it.Next() {
			bv := b.MapIndex(it.Key())
			if !bv.IsValid() {
				return false, fmt.Sprintf("%s: key %v missing", path, it.Key())
			}
			if ok, d := eq(it.Value(), bv, fmt.Sprintf("%s[%v]", path, it.Key())); !ok {
				return false, d
			}
		}
	case reflect.Pointer:
		if a.IsNil() != b.IsNil() {
			return false, fmt.Sprintf("%s: nil-ness differs (%v vs %v)", path, a.IsNil(), b.IsNil())
		}
		if !a.IsNil() {
			return eq(a.Elem(), b.Elem(), path+"*")
		}
	case reflect.Interface:
		if a.IsNil() != b.IsNil() {
			return false, fmt.Sprintf("%s: union member nil-ness differs (%v vs %v)", path, a.IsNil(), b.IsNil())
		}
		if !a.IsNil() {
			return eq(a.Elem(), b.Elem(), path+"(union)")
		}
	case reflect.Struct:
		for i := 0; i < a.NumField(); i++ {
			f := a.Type().Field(i)
			if !f.IsExported() && !f.Anonymous { // (unexported embedded structs are flattened like any other)
				continue
			}
			if f.Tag.Get("thrift") == "" && !f.Anonymous {
				continue
			}
			if f.Anonymous && f.Type.Kind() == reflect.Pointer {
				// a flattened embedded pointer has no representation of its own: nil and a
				// pointer to a struct whose fields are all absent are the same content
				x, y := a.Field(i), b.Field(i)
				if x.IsNil() != y.IsNil() {
					nn := x
					if x.IsNil() {
						nn = y
					}
					if embAbsent(nn.Elem()) {
						continue
					}
				}
			}
			if ok, d := eq(a.Field(i), b.Field(i), path+"."+f.Name); !ok {
				return false, d
			}
		}
	}
	return true, ""
}

// embAbsent reports whether none of the thrift fields below an embedded struct value is
// written (nil pointers, zero and not required), embedded structs followed recursively.
func embAbsent(v reflect.Value) bool {
	t := v.Type()
	for i := 0; i < t.NumField(); i++ {
		f := t.Field(i)
		x := v.Field(i)
		if f.Anonymous {
			ft := f.Type
			for ft.Kind() == reflect.Pointer {
				ft = ft.Elem()
			}
			if ft.Kind() == reflect.Struct {
				for x.Kind() == reflect.Pointer && !x.IsNil() {
					x = x.Elem()
				}
				if x.Kind() == reflect.Pointer || embAbsent(x) {
					continue
				}
				return false
			}
		}
		tag := f.Tag.Get("thrift")
		if tag == "" || !f.IsExported() {
			continue
		}
		if strings.Contains(tag, ",required") || !x.IsZero() {
			return false
		}
	}
	return true
}

func trunc(s string) string {
	if len(s) > 40 {
		return s[:40] + "…"
	}
	return s
}

// TypeString abbreviates a generated type for reports.
func TypeString(t reflect.Type) string {
	s := t.String()
	if len(s) > 300 {
		s = s[:300] + "…"
	}
	return s
}

// RequiredSet reports whether every required pointer field of v is non-nil (the precondition
// of the round-trip statement); the filler always produces such values.
func HasMaps(t reflect.Type) bool { return hasMaps(t, map[reflect.Type]bool{}) }

func hasMaps(t reflect.Type, seen map[reflect.Type]bool) bool {
	if seen[t] {
		return false
	}
	seen[t] = true
	switch t.Kind() {
	case reflect.Map:
		return true
	case reflect.Pointer, reflect.Slice:
		return hasMaps(t.Elem(), seen)
	case reflect.Struct:
		for i := 0; i < t.NumField(); i++ {
			if hasMaps(t.Field(i).Type, seen) {
				return true
			}
		}
	}
	return false
}
