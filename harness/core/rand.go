package core

import "math"

// Rand is a splitmix64 stream.  Case i of sub-monitor s under seed k always
// starts from the same state, so a case is a pure function of (seed, sub, i).
type Rand struct{ s uint64 }

func NewRand(seed uint64) *Rand { return &Rand{s: seed} }

func Mix(a, b uint64) uint64 {
	x := a*0x9E3779B97F4A7C15 ^ (b + 0xD1B54A32D192ED03)
	x ^= x >> 30
	x *= 0xBF58476D1CE4E5B9
	x ^= x >> 27
	x *= 0x94D049BB133111EB
	x ^= x >> 31
	return x
}

func HashString(s string) uint64 {
	h := uint64(14695981039346656037)
	for i := 0; i < len(s); i++ {
		h ^= uint64(s[i])
		h *= 1099511628211
	}
	return h
}

func HashBytes(b []byte) uint64 {
	h := uint64(14695981039346656037)
	for i := 0; i < len(b); i++ {
		h ^= uint64(b[i])
		h *= 1099511628211
	}
	return h
}

func (r *Rand) Uint64() uint64 {
	r.s += 0x9E3779B97F4A7C15
	z := r.s
	z = (z ^ (z >> 30)) * 0xBF58476D1CE4E5B9
	z = (z ^ (z >> 27)) * 0x94D049BB133111EB
	return z ^ (z >> 31)
}

// Intn returns a value in [0,n); n<=0 yields 0.
func (r *Rand) Intn(n int) int {
	if n <= 1 {
		return 0
	}
	return int(r.Uint64() % uint64(n))
}

// Range returns a value in [lo,hi].
func (r *Rand) Range(lo, hi int) int {
	if hi <= lo {
		return lo
	}
	return lo + r.Intn(hi-lo+1)
}

func (r *Rand) Bool() bool { return r.Uint64()&1 == 1 }

// Chance is true with probability num/den.
func (r *Rand) Chance(num, den int) bool { return r.Intn(den) < num }

func (r *Rand) Float64() float64 { return float64(r.Uint64()>>11) / (1 << 53) }

func (r *Rand) Bytes(n int) []byte {
	b := make([]byte, n)
	for i := 0; i < n; {
		v := r.Uint64()
		for k := 0; k < 8 && i < n; k++ {
			b[i] = byte(v)
			v >>= 8
			i++
		}
	}
	return b
}

// Fork derives an independent stream.
func (r *Rand) Fork(tag uint64) *Rand { return &Rand{s: Mix(r.Uint64(), tag)} }

func Pick[T any](r *Rand, xs []T) T { return xs[r.Intn(len(xs))] }

// Boundary-biased integer pools -------------------------------------------------

var int64Pool = func() []int64 {
	var p []int64
	add := func(v int64) { p = append(p, v-1, v, v+1) }
	for _, b := range []uint{7, 8, 15, 16, 31, 32, 53, 62} {
		add(int64(1) << b)
		add(-(int64(1) << b))
	}
	p = append(p, 0, 1, -1, 2, -2, 9, 10, 11, 99, 100, 101, 127, 128, 255, 256, 300, 1000, 65535, 65536,
		math.MaxInt64, math.MaxInt64-1, math.MinInt64, math.MinInt64+1, math.MaxInt32, math.MinInt32, math.MaxInt16, math.MinInt16, math.MaxInt8, math.MinInt8)
	v := int64(1)
	for i := 0; i < 18; i++ {
		v *= 10
		p = append(p, v-1, v, v+1, -v, -v+1, -v-1)
	}
	return p
}()

// Int64 returns a boundary-biased int64.
func (r *Rand) Int64() int64 {
	switch r.Intn(4) {
	case 0:
		return int64Pool[r.Intn(len(int64Pool))]
	case 1:
		return int64(r.Intn(256)) - 128
	case 2:
		return int64(r.Uint64()) >> uint(r.Intn(64))
	default:
		return int64(r.Uint64())
	}
}

// Uint64B returns a boundary-biased uint64.
func (r *Rand) Uint64B() uint64 {
	switch r.Intn(4) {
	case 0:
		return uint64(int64Pool[r.Intn(len(int64Pool))])
	case 1:
		return uint64(r.Intn(300))
	case 2:
		return r.Uint64() >> uint(r.Intn(64))
	default:
		return math.MaxUint64 - uint64(r.Intn(3))
	}
}

var floatPool = []float64{0, math.Copysign(0, -1), 1, -1, 0.5, 1.5, 1e21, 1e20, 9.999999999999999e20, 1.0000000000000001e21, 1e-6, 9.99999e-7, 1e-7, 1.0000001e-6,
	math.MaxFloat64, math.SmallestNonzeroFloat64, math.MaxFloat32, math.SmallestNonzeroFloat32, 1 << 53, 1<<53 + 2, 123456789, 1.1, 3.141592653589793, 100, 1e100, 1e-100, 0.1, 0.000001, 0.0000001, 123456789012345678, 1e15, 1e16, 1e17}

// Float returns a boundary-biased finite-or-not float64 (special=true allows NaN/Inf).
func (r *Rand) Float(special bool) float64 {
	f := r.float(special)
	if !special && (math.IsNaN(f) || math.IsInf(f, 0)) {
		return 42.5
	}
	return f
}

func (r *Rand) float(special bool) float64 {
	switch r.Intn(5) {
	case 0:
		f := floatPool[r.Intn(len(floatPool))]
		if r.Bool() {
			f = -f
		}
		return f
	case 1:
		if special {
			return []float64{math.NaN(), math.Inf(1), math.Inf(-1)}[r.Intn(3)]
		}
		return float64(r.Intn(1000)) / 8
	case 2:
		f := math.Float64frombits(r.Uint64())
		if !special && (math.IsNaN(f) || math.IsInf(f, 0)) {
			return 42.5
		}
		return f
	case 3:
		return float64(float32(math.Float32frombits(uint32(r.Uint64()))))
	default:
		return float64(r.Int64())
	}
}

func (r *Rand) Float32(special bool) float32 {
	f := float32(r.Float(special))
	if !special && (math.IsNaN(float64(f)) || math.IsInf(float64(f), 0)) {
		return 7.25
	}
	return f
}

var specialRunes = []string{"\"", "\\", "<", ">", "&", "\x00", "\x1f", "\x7f", "\x80", "\xff", " ", " ", "é", "世", "\U0001F600", "\xed\xa0\x80", "\n", "\t", "/", "\xc3", " ", "A", "z", "0"}

// String returns a string of length around n mixing plain ASCII with bytes that
// matter to escaping / UTF-8 handling.
func (r *Rand) String(maxLen int) string {
	n := r.Intn(maxLen + 1)
	if r.Chance(1, 8) {
		n = 0
	}
	b := make([]byte, 0, n+4)
	hostile := r.Intn(3) == 0
	for len(b) < n {
		if hostile && r.Chance(1, 4) {
			b = append(b, specialRunes[r.Intn(len(specialRunes))]...)
		} else if r.Chance(1, 40) {
			b = append(b, specialRunes[r.Intn(len(specialRunes))]...)
		} else {
			b = append(b, byte('a'+r.Intn(26)))
		}
	}
	return string(b)
}

// ASCIIString is a plain identifier-like string.
func (r *Rand) ASCIIString(minLen, maxLen int) string {
	n := r.Range(minLen, maxLen)
	b := make([]byte, n)
	const al = "abcdefghijklmnopqrstuvwxyzABCDEFGHIJKLMNOPQRSTUVWXYZ0123456789_"
	for i := range b {
		b[i] = al[r.Intn(len(al))]
	}
	return string(b)
}

// Len returns a collection length biased to thresholds.
func (r *Rand) Len(max int) int {
	pool := []int{0, 0, 1, 1, 2, 3, 9, 10, 11, 14, 15, 16, 17, 20, 21, 31, 32, 33, 64, 100}
	for {
		var n int
		if r.Chance(3, 4) {
			n = pool[r.Intn(len(pool))]
		} else {
			n = r.Intn(max + 1)
		}
		if n <= max {
			return n
		}
	}
}
