// Package jsondoc generates JSON documents: valid ones with hostile spellings,
// mutations of them, token-alphabet enumerations and raw bytes.
package jsondoc

import (
	"fmt"
	"strconv"
	"strings"
	"unicode/utf8"

	"verifharness/core"
)

// Opts controls document generation.
type Opts struct {
	MaxDepth  int
	MaxElems  int
	MaxString int
	// Spaces inserts random insignificant whitespace.
	Spaces bool
	// Escapes re-spells string characters with \uXXXX / short escapes.
	Escapes bool
}

var DefaultOpts = Opts{MaxDepth: 5, MaxElems: 6, MaxString: 24, Spaces: true, Escapes: true}

var numberPool = []string{"0", "-0", "1", "-1", "10", "12", "123", "127", "128", "255", "256", "-128", "-129", "32767", "32768", "65535", "65536",
	"2147483647", "2147483648", "-2147483648", "-2147483649", "4294967295", "4294967296", "9223372036854775807", "9223372036854775808",
	"-9223372036854775808", "-9223372036854775809", "18446744073709551615", "18446744073709551616", "123456789012345678901234567890",
	"0.0", "-0.0", "1.0", "1.5", "0.1", "1e2", "1E2", "1e+2", "1e-2", "1.5e300", "1e400", "-1e400", "1e-400", "0e0", "0.000001", "1e21", "1e20", "123.456e-7", "3.141592653589793", "0.30000000000000004",
	"1.7976931348623157e308", "4.9e-324", "3.4028235e38", "1e38", "3.5e38", "100000000000000000000", "1.0e1"}

func Number(r *core.Rand) string {
	if r.Chance(2, 3) {
		return numberPool[r.Intn(len(numberPool))]
	}
	switch r.Intn(4) {
	case 0:
		return strconv.FormatInt(r.Int64(), 10)
	case 1:
		return strconv.FormatUint(r.Uint64B(), 10)
	case 2:
		return strconv.FormatFloat(r.Float(false), 'g', -1, 64)
	default:
		return strconv.Itoa(r.Intn(1000))
	}
}

// StringLit renders s as a JSON string literal with random (valid) spellings.
func StringLit(r *core.Rand, s string, escapes bool) string {
	var b strings.Builder
	b.WriteByte('"')
	for i := 0; i < len(s); {
		c := s[i]
		if c < utf8.RuneSelf {
			i++
			switch {
			case c == '"' || c == '\\':
				b.WriteByte('\\')
				b.WriteByte(c)
			case c < 0x20:
				switch {
				case c == '\n' && r.Bool():
					b.WriteString(`\n`)
				case c == '\t' && r.Bool():
					b.WriteString(`\t`)
				case c == '\r' && r.Bool():
					b.WriteString(`\r`)
				case c == '\b' && r.Bool():
					b.WriteString(`\b`)
				case c == '\f' && r.Bool():
					b.WriteString(`\f`)
				default:
					fmt.Fprintf(&b, `\u%04x`, c)
				}
			case escapes && r.Chance(1, 12):
				if c == '/' && r.Bool() {
					b.WriteString(`\/`)
				} else if r.Bool() {
					fmt.Fprintf(&b, `\u%04X`, c)
				} else {
					fmt.Fprintf(&b, `\u%04x`, c)
				}
			default:
				b.WriteByte(c)
			}
			continue
		}
		rn, size := utf8.DecodeRuneInString(s[i:])
		if rn == utf8.RuneError && size == 1 {
			// invalid UTF-8 byte: keep raw (both decoders coerce it)
			b.WriteByte(c)
			i++
			continue
		}
		i += size
		if escapes && r.Chance(1, 6) {
			if rn >= 0x10000 {
				r1, r2 := (rn-0x10000)>>10+0xd800, (rn-0x10000)&0x3ff+0xdc00
				fmt.Fprintf(&b, `\u%04x\u%04x`, r1, r2)
			} else {
				fmt.Fprintf(&b, `\u%04x`, rn)
			}
		} else {
			b.WriteString(s[i-size : i])
		}
	}
	b.WriteByte('"')
	return b.String()
}

var hostileEscapes = []string{`\ud800`, `\udc00`, `\ud800A`, `𐀀`, `􏿿`, `\u0000`, ` `, ` `, `\ud800x`, `😀`, `\/`, `<`, `�`, `￾`}

func ws(r *core.Rand, on bool) string {
	if !on || r.Chance(2, 3) {
		return ""
	}
	return core.Pick(r, []string{" ", "\n", "\t", "\r", "  ", " \n\t", "\r\n"})
}

// Valid produces a syntactically valid JSON document.
func Valid(r *core.Rand, o Opts) string {
	var b strings.Builder
	value(r, o, &b, 0)
	return b.String()
}

func str(r *core.Rand, o Opts) string {
	s := r.String(o.MaxString)
	lit := StringLit(r, s, o.Escapes)
	if o.Escapes && r.Chance(1, 10) {
		// splice a hostile (but syntactically valid) escape
		p := 1 + r.Intn(len(lit)-1)
		// do not split an existing escape sequence
		if !strings.Contains(lit[max(0, p-6):p], `\`) {
			lit = lit[:p] + hostileEscapes[r.Intn(len(hostileEscapes))] + lit[p:]
		}
	}
	return lit
}

func value(r *core.Rand, o Opts, b *strings.Builder, depth int) {
	k := r.Intn(10)
	if depth >= o.MaxDepth && k >= 6 {
		k = r.Intn(6)
	}
	switch k {
	case 0:
		b.WriteString("null")
	case 1:
		b.WriteString(core.Pick(r, []string{"true", "false"}))
	case 2, 3:
		b.WriteString(Number(r))
	case 4, 5:
		b.WriteString(str(r, o))
	case 6, 7:
		b.WriteByte('[')
		b.WriteString(ws(r, o.Spaces))
		n := r.Intn(o.MaxElems + 1)
		for i := 0; i < n; i++ {
			if i > 0 {
				b.WriteByte(',')
				b.WriteString(ws(r, o.Spaces))
			}
			value(r, o, b, depth+1)
			b.WriteString(ws(r, o.Spaces))
		}
		b.WriteByte(']')
	default:
		b.WriteByte('{')
		b.WriteString(ws(r, o.Spaces))
		n := r.Intn(o.MaxElems + 1)
		for i := 0; i < n; i++ {
			if i > 0 {
				b.WriteByte(',')
				b.WriteString(ws(r, o.Spaces))
			}
			if r.Chance(1, 3) {
				b.WriteString(str(r, o))
			} else {
				b.WriteString(StringLit(r, core.Pick(r, []string{"a", "b", "A", "key", "id", "name", "x", "", "aa"}), false))
			}
			b.WriteString(ws(r, o.Spaces))
			b.WriteByte(':')
			b.WriteString(ws(r, o.Spaces))
			value(r, o, b, depth+1)
			b.WriteString(ws(r, o.Spaces))
		}
		b.WriteByte('}')
	}
}

var structural = []byte(`{}[],:"\ 0123456789-+.eEtfn` + "\n\t\x00\x1f\x7f\x80\xff/u")

var otherTokens = []string{"null", "true", "false", "0", "-1", "1.5", "[]", "{}", `""`, `"k"`, "nul", `"\u0041"`}

// Mutate applies 1-3 random byte-level or token-level mutations.
func Mutate(r *core.Rand, doc string) string {
	b := []byte(doc)
	n := 1 + r.Intn(3)
	for i := 0; i < n; i++ {
		if len(b) == 0 {
			b = append(b, structural[r.Intn(len(structural))])
			continue
		}
		p := r.Intn(len(b))
		switch r.Intn(9) {
		case 7, 8: // a whole string token (key or value) becomes a token of another kind, or the reverse
			var spans [][2]int
			for i := 0; i < len(b); i++ {
				if b[i] != '"' {
					continue
				}
				j := i + 1
				for j < len(b) && b[j] != '"' {
					if b[j] == '\\' {
						j++
					}
					j++
				}
				if j < len(b) {
					spans = append(spans, [2]int{i, j + 1})
				}
				i = j
			}
			repl := otherTokens[r.Intn(len(otherTokens))]
			if len(spans) == 0 {
				b = append(b[:p], append([]byte(repl), b[p:]...)...)
				continue
			}
			sp := spans[r.Intn(len(spans))]
			b = append(b[:sp[0]], append([]byte(repl), b[sp[1]:]...)...)
		case 0: // truncate
			b = b[:p]
		case 1: // delete
			b = append(b[:p], b[p+1:]...)
		case 2: // insert structural byte
			b = append(b[:p], append([]byte{structural[r.Intn(len(structural))]}, b[p:]...)...)
		case 3: // replace with structural
			b[p] = structural[r.Intn(len(structural))]
		case 4: // flip a bit
			b[p] ^= 1 << uint(r.Intn(8))
		case 5: // duplicate a span
			q := p + r.Intn(len(b)-p+1)
			b = append(b[:q], append(append([]byte{}, b[p:q]...), b[q:]...)...)
		case 6: // swap two bytes
			q := r.Intn(len(b))
			b[p], b[q] = b[q], b[p]
		}
	}
	return string(b)
}

// Tokens is the alphabet for exhaustive short-sequence enumeration.
var Tokens = []string{"{", "}", "[", "]", ",", ":", `"a"`, `""`, `"\n"`, `"é"`, `"\x"`, `"a`, "\"\x01\"", "\"\xff\"", `"\ud800"`,
	"0", "-0", "1", "12", "01", "-", "1.5", "1.", ".5", "1e2", "1e", "1e+", "-1", "true", "false", "null", "nul", "tru", " ", "\n", "\x00", "\x80", "a", "+1", "/"}

// Bytes32 is the byte alphabet for exhaustive short byte-string enumeration.
var Bytes32 = []byte("{}[],:\"\\ 01-+.eEtrufalsn9/\n\t\x00\x1f\x7f\x80\xffx")

func max(a, b int) int {
	if a > b {
		return a
	}
	return b
}
