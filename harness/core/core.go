// Package core is the in-worker runtime shared by all monitors: deterministic
// case streams, the crash journal, the CPU-budget watchdog, violation / counter
// / sample reporting on the worker's stdout (JSON lines read by the supervisor).
package core

import (
	"bufio"
	"encoding/binary"
	"encoding/json"
	"fmt"
	"os"
	"regexp"
	"runtime"
	"runtime/debug"
	"sort"
	"strconv"
	"strings"
	"sync"
	"sync/atomic"
	"syscall"
	"time"
)

type Tier int

const (
	Quick Tier = iota
	Thorough
)

func (t Tier) String() string {
	if t == Thorough {
		return "thorough"
	}
	return "quick"
}

// Sub is one named case list of a monitor.
type Sub struct {
	Name string
	// N is the number of cases for the tier.
	N func(t Tier) int
	// Run executes case c.Index.
	Run func(c *Case)
	// Modes restricts the build modes the sub runs in (nil = every mode).
	Modes []string
	// Serial subs are run by shard 0 only (they own global state or use many goroutines).
	Serial bool
}

// Monitor is everything a property registers.
type Monitor struct {
	Prop string
	Subs []Sub
	// Witnesses are the committed re-executions of known / fixed findings: the
	// function reports through c.Violation when the defect is still present.
	Witnesses map[string]func(c *Case)
	Rule      string
	Trusted   []string
}

var registry = map[string]*Monitor{}

func Register(m *Monitor) { registry[m.Prop] = m }
func Lookup(p string) *Monitor {
	return registry[p]
}

// ---------------------------------------------------------------------------

type Worker struct {
	Prop    string
	Mode    string
	Seed    uint64
	Tier    Tier
	Shard   int
	NShards int

	out      *bufio.Writer
	outMu    sync.Mutex
	cntMu    sync.Mutex
	journal  *os.File
	counts   map[string]int64
	evals    int64
	distinct map[uint64]struct{}
	trivial  int64
	samples  []sample
	nsamples int

	cpuStart  atomic.Int64 // ns of process CPU at the start of the current case; 0 = idle
	cpuBudget atomic.Int64 // ns
	curCase   atomic.Pointer[string]
	distFile  string
	nviol     int
}

type sample struct {
	Score int
	V     any
}

type Case struct {
	W     *Worker
	Prop  string
	Sub   string
	Index int
	Seed  uint64
	Tier  Tier
	Mode  string
	Rng   *Rand
	// Replay is set when a single case is re-executed from a replay file.
	Replay bool

	class     string
	journaled bool
}

type msg map[string]any

func (w *Worker) emit(m msg) {
	w.outMu.Lock()
	defer w.outMu.Unlock()
	b, err := json.Marshal(m)
	if err != nil {
		b, _ = json.Marshal(msg{"t": "error", "detail": "unencodable message: " + err.Error()})
	}
	w.out.Write(b)
	w.out.WriteByte('\n')
	if t, _ := m["t"].(string); t != "digest" {
		w.out.Flush()
	}
}

func processCPU() int64 {
	var ru syscall.Rusage
	syscall.Getrusage(syscall.RUSAGE_SELF, &ru)
	return ru.Utime.Nano() + ru.Stime.Nano()
}

// Journal records, in a file the supervisor reads after a crash, which case is
// about to enter library code and with which case class.  It must be called
// after the case has been generated and before the first library call.
func (c *Case) Journal(class string) {
	c.class = class
	c.journaled = true
	w := c.W
	if w.journal != nil {
		var buf [160]byte
		s := fmt.Sprintf("%s %d %s\n", c.Sub, c.Index, strings.ReplaceAll(class, " ", "_"))
		if len(s) > len(buf) {
			s = s[:len(buf)-1] + "\n"
		}
		n := copy(buf[:], s)
		for i := n; i < len(buf); i++ {
			buf[i] = ' '
		}
		w.journal.WriteAt(buf[:], 0)
	}
	desc := c.Sub + "#" + fmt.Sprint(c.Index) + " " + class
	w.curCase.Store(&desc)
	w.cpuStart.Store(processCPU())
}

// Multi reports whether other goroutines of the worker allocate concurrently
// (always false: workers run their cases on one goroutine).
func (w *Worker) Multi() bool { return false }

// Class sets the case class without journalling again.
func (c *Case) Class(class string) { c.class = class }

// Budget sets the CPU budget of the current case (default 20 s).
func (c *Case) Budget(d time.Duration) { c.W.cpuBudget.Store(int64(d)) }

// Violation reports a refutation of the property.
func (c *Case) Violation(class, outcome, detail string, witness any) {
	if class == "" {
		class = c.class
	}
	w := c.W
	w.nviol++
	if w.nviol > 400 {
		if w.nviol == 401 {
			w.emit(msg{"t": "note", "detail": "more than 400 violations in this worker; further ones only counted"})
		}
		c.Count("violations.suppressed", 1)
		return
	}
	if len(detail) > 1500 {
		detail = detail[:1500] + "…"
	}
	w.emit(msg{"t": "viol", "sub": c.Sub, "index": c.Index, "class": class, "outcome": outcome,
		"detail": detail, "witness": witness, "mode": c.Mode, "seed": c.Seed, "tier": c.Tier.String()})
}

func (c *Case) Count(name string, n int) {
	c.W.cntMu.Lock()
	c.W.counts[name] += int64(n)
	c.W.cntMu.Unlock()
}

// Distinct records the identity of the case for the distinct/non-trivial count.
func (c *Case) Distinct(h uint64, nontrivial bool) {
	if !nontrivial {
		c.W.trivial++
		return
	}
	if len(c.W.distinct) < 6_000_000 {
		c.W.distinct[h] = struct{}{}
	} else {
		c.W.counts["distinct.overflow"]++
	}
}

// Sample offers a materialised case for the evidence file; the first three and
// the highest-scored ones are kept.
func (c *Case) Sample(score int, v any) {
	w := c.W
	w.nsamples++
	if len(w.samples) < 3 {
		w.samples = append(w.samples, sample{score, v})
		return
	}
	min := 3
	if len(w.samples) < 6 {
		w.samples = append(w.samples, sample{score, v})
		return
	}
	for i := 3; i < len(w.samples); i++ {
		if w.samples[i].Score < w.samples[min].Score {
			min = i
		}
	}
	if score > w.samples[min].Score {
		w.samples[min] = sample{score, v}
	}
}

// Digest emits a named value that the supervisor compares across build modes /
// processes (they must agree).
func (c *Case) Digest(name string, val uint64) {
	c.W.emit(msg{"t": "digest", "sub": c.Sub, "name": name, "val": fmt.Sprintf("%016x", val)})
}

func (c *Case) Note(detail string) { c.W.emit(msg{"t": "note", "detail": detail}) }

// Inconclusive records that a monitor could not decide (floor not reached, ...).
func (c *Case) Inconclusive(reason string) {
	c.W.emit(msg{"t": "inconclusive", "sub": c.Sub, "reason": reason})
}

var reNum = regexp.MustCompile(`0x[0-9a-fA-F]+|\d+`)

// PanicSig normalises a recovered panic value into an outcome signature.
func PanicSig(r any) string {
	s := fmt.Sprint(r)
	if e, ok := r.(error); ok {
		s = e.Error()
	}
	s = reNum.ReplaceAllString(s, "N")
	if i := strings.IndexByte(s, '\n'); i >= 0 {
		s = s[:i]
	}
	if len(s) > 90 {
		s = s[:90]
	}
	return "panic:" + strings.ReplaceAll(s, " ", "_")
}

// Guard runs f and converts a panic into (sig, stack).
func Guard(f func()) (sig string, stack string) {
	defer func() {
		if r := recover(); r != nil {
			sig = PanicSig(r)
			stack = fmt.Sprint(r) + "\n" + trimStack(debug.Stack())
		}
	}()
	f()
	return "", ""
}

func trimStack(b []byte) string {
	lines := strings.Split(string(b), "\n")
	var keep []string
	for _, l := range lines {
		if strings.Contains(l, "segmentio/encoding") || strings.Contains(l, "verifharness/mon") {
			keep = append(keep, strings.TrimSpace(l))
		}
		if len(keep) >= 12 {
			break
		}
	}
	return strings.Join(keep, " | ")
}

var canary = [8]uint64{0xA5A5A5A5A5A5A5A5, 0x5A5A5A5A5A5A5A5A, 0xDEADBEEFCAFEF00D, 1, 2, 3, 0xFFFFFFFFFFFFFFFF, 0}

func canaryOK() bool {
	return canary == [8]uint64{0xA5A5A5A5A5A5A5A5, 0x5A5A5A5A5A5A5A5A, 0xDEADBEEFCAFEF00D, 1, 2, 3, 0xFFFFFFFFFFFFFFFF, 0}
}

// ---------------------------------------------------------------------------

type Options struct {
	Prop, Mode string
	Seed       uint64
	Tier       Tier
	Shard      int
	NShards    int
	// Resume skips all cases before (ResumeSub, ResumeIndex).
	ResumeSub   string
	ResumeIndex int
	// Only runs exactly one case.
	OnlySub   string
	OnlyIndex int
	Only      bool
	Witness   string
	Journal   string
	DistFile  string
	ListSubs  bool
}

// defaultBudget is the process CPU time one case may take: 20 s, and 120 s in the sanitizer
// builds, where the garbage collector's share alone (all Ps, a heap full of run-time built types
// that are never freed) can exceed 20 s late in a shard.
func (w *Worker) defaultBudget() time.Duration {
	switch w.Mode {
	case "race", "asan":
		return 120 * time.Second
	}
	return 20 * time.Second
}

func (w *Worker) watchdog() {
	for {
		time.Sleep(200 * time.Millisecond)
		st := w.cpuStart.Load()
		if st == 0 {
			continue
		}
		if processCPU()-st > w.cpuBudget.Load() {
			desc := ""
			if p := w.curCase.Load(); p != nil {
				desc = *p
			}
			fmt.Fprintf(os.Stderr, "\nVERIF-CPU-BUDGET-EXCEEDED case=%s budget=%s\n", desc, time.Duration(w.cpuBudget.Load()))
			buf := make([]byte, 1<<20)
			n := runtime.Stack(buf, true)
			os.Stderr.Write(buf[:n])
			os.Exit(97)
		}
	}
}

func (w *Worker) snapshot(final bool) {
	names := make([]string, 0, len(w.counts))
	for k := range w.counts {
		names = append(names, k)
	}
	sort.Strings(names)
	cs := map[string]int64{}
	for _, k := range names {
		cs[k] = w.counts[k]
	}
	var ss []any
	for _, s := range w.samples {
		ss = append(ss, s.V)
	}
	w.emit(msg{"t": "snap", "final": final, "evaluations": w.evals, "distinct": len(w.distinct), "trivial": w.trivial, "counts": cs, "samples": ss})
}

func (w *Worker) writeDistinct() {
	if w.distFile == "" {
		return
	}
	f, err := os.OpenFile(w.distFile, os.O_CREATE|os.O_WRONLY|os.O_APPEND, 0o644)
	if err != nil {
		return
	}
	bw := bufio.NewWriter(f)
	var b [8]byte
	for h := range w.distinct {
		binary.LittleEndian.PutUint64(b[:], h)
		bw.Write(b[:])
	}
	bw.Flush()
	f.Close()
}

// RunWorker is the worker's main: it executes the cases of one shard.
func RunWorker(o Options) int {
	m := Lookup(o.Prop)
	if m == nil {
		fmt.Fprintf(os.Stderr, "unknown property %q\n", o.Prop)
		return 2
	}
	w := &Worker{Prop: o.Prop, Mode: o.Mode, Seed: o.Seed, Tier: o.Tier, Shard: o.Shard, NShards: o.NShards,
		out: bufio.NewWriterSize(os.Stdout, 1<<16), counts: map[string]int64{}, distinct: map[uint64]struct{}{}, distFile: o.DistFile}
	w.cpuBudget.Store(int64(w.defaultBudget()))
	if o.NShards <= 0 {
		w.NShards = 1
	}
	if o.Journal != "" {
		f, err := os.OpenFile(o.Journal, os.O_CREATE|os.O_WRONLY, 0o644)
		if err == nil {
			w.journal = f
		}
	}
	if o.ListSubs {
		for _, s := range m.Subs {
			w.emit(msg{"t": "sub", "name": s.Name, "n": s.N(o.Tier), "modes": s.Modes, "serial": s.Serial})
		}
		w.emit(msg{"t": "info", "rule": m.Rule, "trusted": m.Trusted})
		return 0
	}
	go w.watchdog()

	runCase := func(s *Sub, idx int, replay bool) {
		c := &Case{W: w, Prop: o.Prop, Sub: s.Name, Index: idx, Seed: o.Seed, Tier: o.Tier, Mode: o.Mode, Replay: replay,
			Rng: NewRand(Mix(Mix(o.Seed, HashString(o.Prop+"/"+s.Name)), uint64(idx)))}
		w.cpuBudget.Store(int64(w.defaultBudget()))
		w.evals++
		func() {
			defer func() {
				if r := recover(); r != nil {
					cl := c.class
					if cl == "" {
						cl = "unclassified"
					}
					c.Violation(cl, PanicSig(r), fmt.Sprint(r)+" :: "+trimStack(debug.Stack()), nil)
				}
			}()
			s.Run(c)
		}()
		w.cpuStart.Store(0)
		if !canaryOK() {
			c.Violation(c.class, "canary-corrupted", "harness sentinel words changed", nil)
			w.snapshot(true)
			os.Exit(98)
		}
	}

	if o.Witness != "" {
		f := m.Witnesses[o.Witness]
		if f == nil {
			fmt.Fprintf(os.Stderr, "unknown witness %q\n", o.Witness)
			return 2
		}
		s := &Sub{Name: "witness:" + o.Witness, Run: f}
		runCase(s, 0, true)
		w.snapshot(true)
		w.emit(msg{"t": "done"})
		return 0
	}

	if o.Only {
		for i := range m.Subs {
			if m.Subs[i].Name == o.OnlySub {
				runCase(&m.Subs[i], o.OnlyIndex, true)
				w.snapshot(true)
				w.emit(msg{"t": "done"})
				return 0
			}
		}
		fmt.Fprintf(os.Stderr, "unknown sub %q\n", o.OnlySub)
		return 2
	}

	skipping := o.ResumeSub != ""
	last := time.Now()
	sinceCheck := 0
	recycleBytes := uint64(700 << 20)
	if v, err := strconv.Atoi(os.Getenv("VERIF_RECYCLE_MB")); err == nil && v > 0 {
		recycleBytes = uint64(v) << 20
	}
	for si := range m.Subs {
		s := &m.Subs[si]
		if len(s.Modes) > 0 && !contains(s.Modes, o.Mode) {
			continue
		}
		start := 0
		if skipping {
			if s.Name != o.ResumeSub {
				continue
			}
			skipping = false
			start = o.ResumeIndex
		}
		n := s.N(o.Tier)
		for idx := start; idx < n; idx++ {
			if s.Serial {
				if w.Shard != 0 {
					break
				}
			} else if idx%w.NShards != w.Shard {
				continue
			}
			runCase(s, idx, false)
			if time.Since(last) > 2*time.Second {
				w.snapshot(false)
				last = time.Now()
			}
			// Types built with reflect.StructOf and the codecs cached for them are never freed:
			// once the heap has grown past the limit the worker hands the rest of its shard to a
			// fresh process (the supervisor resumes at the next index).
			if sinceCheck++; sinceCheck >= 16 {
				sinceCheck = 0
				var ms runtime.MemStats
				runtime.ReadMemStats(&ms)
				if ms.HeapAlloc > recycleBytes {
					w.writeDistinct()
					w.snapshot(true)
					w.emit(msg{"t": "recycle", "at": fmt.Sprintf("%s:%d", s.Name, idx+1), "heap": ms.HeapAlloc})
					w.emit(msg{"t": "done"})
					return 0
				}
			}
		}
	}
	w.writeDistinct()
	w.snapshot(true)
	w.emit(msg{"t": "done"})
	return 0
}

func contains(xs []string, s string) bool {
	for _, x := range xs {
		if x == s {
			return true
		}
	}
	return false
}

// Const returns an N function with fixed quick / thorough sizes.
func Const(q, t int) func(Tier) int {
	return func(tier Tier) int {
		if tier == Thorough {
			return t
		}
		return q
	}
}
