// Package ptypes generates protobuf message types (Go structs built at run time) and values
// for github.com/segmentio/encoding/proto, restricted to the kinds the package documents.
package ptypes

import (
	"fmt"
	"math"
	"reflect"

	"github.com/segmentio/encoding/proto"
	"verifharness/core"
)

// library types with user-supplied methods ---------------------------------------------------

// MsgT implements proto.Message (value receiver for Size/Marshal, pointer for Unmarshal).
type MsgT struct{ B []byte }

func (m MsgT) Size() int { return len(m.B) + 1 }
func (m MsgT) Marshal(b []byte) error {
	if len(b) != m.Size() { // the buffer is the window of this message, sized by Size
		return fmt.Errorf("MsgT: Marshal given %d bytes for a message of %d", len(b), m.Size())
	}
	b[0] = 0x7a
	copy(b[1:], m.B)
	return nil
}
func (m *MsgT) Unmarshal(b []byte) error {
	if len(b) < 1 || b[0] != 0x7a {
		return fmt.Errorf("MsgT: bad marker")
	}
	m.B = append([]byte(nil), b[1:]...)
	return nil
}

// GogoT implements the gogo-style custom interface (Size/MarshalTo/Unmarshal).
type GogoT struct{ Hi, Lo uint32 }

func (g GogoT) Size() int { return 8 }
func (g GogoT) MarshalTo(b []byte) (int, error) {
	if len(b) < 8 {
		return 0, fmt.Errorf("GogoT: short buffer")
	}
	b[0], b[1], b[2], b[3] = byte(g.Hi), byte(g.Hi>>8), byte(g.Hi>>16), byte(g.Hi>>24)
	b[4], b[5], b[6], b[7] = byte(g.Lo), byte(g.Lo>>8), byte(g.Lo>>16), byte(g.Lo>>24)
	return 8, nil
}
func (g *GogoT) Unmarshal(b []byte) error {
	if len(b) != 8 {
		return fmt.Errorf("GogoT: want 8 bytes, have %d", len(b))
	}
	g.Hi = uint32(b[0]) | uint32(b[1])<<8 | uint32(b[2])<<16 | uint32(b[3])<<24
	g.Lo = uint32(b[4]) | uint32(b[5])<<8 | uint32(b[6])<<16 | uint32(b[7])<<24
	return nil
}

// GogoV is a gogo-style custom message of variable size; the empty one has size 0.
type GogoV struct{ B []byte }

func (g GogoV) Size() int { return len(g.B) }
func (g GogoV) MarshalTo(b []byte) (int, error) {
	if len(b) < len(g.B) {
		return 0, fmt.Errorf("GogoV: short buffer")
	}
	return copy(b, g.B), nil
}
func (g *GogoV) Unmarshal(b []byte) error {
	g.B = append([]byte(nil), b...)
	return nil
}

// GogoGen looks like gogoproto-generated code: Size/MarshalTo/Unmarshal and ProtoMessage. The
// library encodes such types field by field (the methods below would give other bytes, which no
// decoder of the fields understands: any use of them shows).
type GogoGen struct {
	A int64
	B string
}

func (g GogoGen) Size() int                       { return 1 }
func (g GogoGen) MarshalTo(b []byte) (int, error) { b[0] = 0xEE; return 1, nil }
func (g *GogoGen) Unmarshal(b []byte) error       { g.A, g.B = -77, "custom-path"; return nil }
func (g *GogoGen) ProtoMessage()                  {}

var TGogoGen = reflect.TypeOf(GogoGen{})

// IsCustom reports whether t is one of the message types with their own encoding.
func IsCustom(t reflect.Type) bool { return t == TMsg || t == TGogo || t == TGogoV || t == TRaw }

var (
	TMsg   = reflect.TypeOf(MsgT{})
	TGogo  = reflect.TypeOf(GogoT{})
	TGogoV = reflect.TypeOf(GogoV{})
	TRaw   = reflect.TypeOf(proto.RawMessage(nil))
)

type Cfg struct {
	MaxDepth  int
	MaxFields int
	// Tags adds protobuf struct tags (numbers, zigzag, fixed).
	Tags bool
	// BigNumbers uses field numbers beyond 65535 as well.
	BigNumbers bool
	Maps       bool
	Custom     bool
	// RefOnly restricts the grammar to what has a .proto equivalent understood by the
	// reference implementation (no byte arrays, no uint/int aliases beyond the table, no custom types).
	RefOnly bool
	Salt    string
}

var DefaultCfg = Cfg{MaxDepth: 3, MaxFields: 8, Tags: true, Maps: true, Custom: true}

type Gen struct {
	R   *core.Rand
	Cfg Cfg
	n   int
}

func New(r *core.Rand, cfg Cfg) *Gen { return &Gen{R: r, Cfg: cfg} }

var scalars = []reflect.Type{
	reflect.TypeOf(false), reflect.TypeOf(int(0)), reflect.TypeOf(int32(0)), reflect.TypeOf(int64(0)), reflect.TypeOf(uint(0)), reflect.TypeOf(uint32(0)), reflect.TypeOf(uint64(0)),
	reflect.TypeOf(float32(0)), reflect.TypeOf(float64(0)), reflect.TypeOf(""), reflect.TypeOf([]byte(nil)),
}

var keyTypes = []reflect.Type{reflect.TypeOf(""), reflect.TypeOf(int(0)), reflect.TypeOf(int32(0)), reflect.TypeOf(int64(0)), reflect.TypeOf(uint32(0)), reflect.TypeOf(uint64(0)), reflect.TypeOf(false), reflect.TypeOf(uint(0))}

func (g *Gen) scalar() reflect.Type {
	r := g.R
	if !g.Cfg.RefOnly && r.Chance(1, 14) {
		return reflect.ArrayOf(core.Pick(r, []int{0, 1, 2, 3, 4, 5, 6, 7, 8, 9, 10, 14, 15, 16, 17, 22, 33}), reflect.TypeOf(byte(0)))
	}
	if g.Cfg.Custom && !g.Cfg.RefOnly && r.Chance(1, 12) {
		return core.Pick(r, []reflect.Type{TMsg, TGogo, TGogoV, TRaw})
	}
	return scalars[r.Intn(len(scalars))]
}

// numberPool holds field numbers around every power of two up to 2^16 (tag length steps at
// 16 and 2048, table and bitmap sizes at other powers) .
var numberPool = func() []int {
	p := []int{1, 2, 3}
	for k := 2; k <= 16; k++ {
		p = append(p, 1<<k-1, 1<<k, 1<<k+1)
	}
	return p[:len(p)-2] // up to 65535
}()
var bigNumberPool = []int{65536, 65537, 131071, 1 << 20, 1<<29 - 1}

// Message builds a struct type.
func (g *Gen) Message(depth int) reflect.Type {
	r := g.R
	if depth > 0 && g.Cfg.Custom && !g.Cfg.RefOnly && r.Chance(1, 16) {
		return TGogoGen // nested by value, by pointer, as element or map value
	}
	n := r.Intn(g.Cfg.MaxFields + 1)
	if r.Chance(1, 14) {
		n = core.Pick(r, []int{0, 1, 1, 16, 20, 40})
		if depth > 0 && n > 8 {
			n = 1
		}
	}
	tagged := g.Cfg.Tags && r.Chance(1, 2)
	used := map[int]bool{}
	var fs []reflect.StructField
	for i := 0; i < n; i++ {
		ft := g.fieldType(depth)
		f := reflect.StructField{Name: fmt.Sprintf("F%d", i), Type: ft}
		if r.Chance(1, 20) {
			f.Name = "u" + f.Name
			f.PkgPath = "verifharness/gen/ptypes"
		}
		tag := ""
		if tagged || (g.Cfg.Tags && r.Chance(1, 6)) {
			num := i + 1
			if r.Chance(1, 3) {
				num = numberPool[r.Intn(len(numberPool))]
				if g.Cfg.BigNumbers && r.Chance(1, 3) {
					num = bigNumberPool[r.Intn(len(bigNumberPool))]
				}
			}
			for used[num] {
				num++
			}
			wire := wireWord(ft)
			base := ft
			for base.Kind() == reflect.Pointer {
				base = base.Elem()
			}
			if base.Kind() == reflect.Slice && base.Elem().Kind() != reflect.Uint8 {
				base = base.Elem()
			}
			switch base.Kind() {
			case reflect.Int32:
				if r.Chance(1, 3) {
					wire = "zigzag32"
				}
			case reflect.Int64, reflect.Int:
				if r.Chance(1, 3) {
					wire = "zigzag64"
				}
			case reflect.Uint32:
				if r.Chance(1, 3) {
					wire = "fixed32"
				}
			case reflect.Uint64:
				if r.Chance(1, 3) {
					wire = "fixed64"
				}
			}
			opt := "opt"
			if ft.Kind() == reflect.Slice && ft.Elem().Kind() != reflect.Uint8 || ft.Kind() == reflect.Map {
				opt = "rep"
			}
			tag = fmt.Sprintf(`protobuf:"%s,%d,%s,name=f%d"`, wire, num, opt, i)
			used[num] = true
		}
		if !tagged && tag == "" {
			// untagged fields are numbered by declaration order among exported fields: keep those numbers free
		}
		f.Tag = reflect.StructTag(tag)
		fs = append(fs, f)
	}
	// resolve collisions between tagged numbers and declaration-order numbers of untagged fields
	pos := 0
	taken := map[int]bool{}
	for i := range fs {
		if fs[i].PkgPath != "" {
			continue
		}
		pos++
		if fs[i].Tag == "" {
			taken[pos] = true
		}
	}
	pos = 0
	for i := range fs {
		if fs[i].PkgPath != "" {
			continue
		}
		pos++
		if fs[i].Tag != "" {
			var wire, opt, name string
			var num int
			fmt.Sscanf(string(fs[i].Tag), `protobuf:"%s`, &wire)
			parts := splitTag(string(fs[i].Tag))
			wire, opt, name = parts[0], parts[2], parts[3]
			fmt.Sscan(parts[1], &num)
			for taken[num] {
				num += 1000
			}
			taken[num] = true
			fs[i].Tag = reflect.StructTag(fmt.Sprintf(`protobuf:"%s,%d,%s,%s"`, wire, num, opt, name))
		}
	}
	if g.Cfg.Salt != "" {
		g.n++
		fs = append(fs, reflect.StructField{Name: "Salt", Type: reflect.TypeOf(int32(0)), Tag: reflect.StructTag(fmt.Sprintf(`protobuf:"varint,%d,opt,name=salt" v:"%s.%d"`, 536870000, g.Cfg.Salt, g.n))})
	}
	var t reflect.Type
	func() {
		defer func() {
			if recover() != nil {
				t = nil
			}
		}()
		t = reflect.StructOf(fs)
	}()
	if t == nil {
		return reflect.TypeOf(struct{ A int }{})
	}
	return t
}

func splitTag(tag string) []string {
	s := tag[len(`protobuf:"`):]
	s = s[:len(s)-1]
	var parts []string
	cur := ""
	for _, ch := range s {
		if ch == ',' && len(parts) < 3 {
			parts = append(parts, cur)
			cur = ""
			continue
		}
		cur += string(ch)
	}
	return append(parts, cur)
}

func wireWord(t reflect.Type) string {
	for t.Kind() == reflect.Pointer {
		t = t.Elem()
	}
	if t.Kind() == reflect.Slice && t.Elem().Kind() != reflect.Uint8 {
		return wireWord(t.Elem())
	}
	switch t.Kind() {
	case reflect.Float32:
		return "fixed32"
	case reflect.Float64:
		return "fixed64"
	case reflect.String, reflect.Slice, reflect.Array, reflect.Struct, reflect.Map:
		return "bytes"
	}
	return "varint"
}

func (g *Gen) fieldType(depth int) reflect.Type {
	r := g.R
	deep := depth < g.Cfg.MaxDepth
	switch k := r.Intn(16); {
	case k < 6:
		return g.scalar()
	case k < 8: // pointer to scalar or struct
		if deep && r.Bool() {
			p := reflect.PointerTo(g.Message(depth + 1))
			if !g.Cfg.RefOnly && r.Chance(1, 6) {
				p = reflect.PointerTo(p) // pointer to pointer to message
			}
			return p
		}
		t := g.scalar()
		if t.Kind() == reflect.Slice || t.Kind() == reflect.Array {
			t = reflect.TypeOf(int64(0))
		}
		p := reflect.PointerTo(t)
		if !g.Cfg.RefOnly && r.Chance(1, 5) {
			p = reflect.PointerTo(p)
		}
		return p
	case k < 10: // nested message by value
		if deep {
			return g.Message(depth + 1)
		}
		return g.scalar()
	case k < 14: // repeated
		var e reflect.Type
		switch {
		case deep && r.Chance(1, 3):
			e = g.Message(depth + 1)
			if r.Bool() {
				e = reflect.PointerTo(e)
				if !g.Cfg.RefOnly && r.Chance(1, 8) {
					e = reflect.PointerTo(e)
				}
			}
		default:
			e = g.scalar()
			if e.Kind() == reflect.Array && !(e.Len() == 0 && !g.Cfg.RefOnly) {
				e = reflect.TypeOf("")
			}
		}
		return reflect.SliceOf(e)
	default:
		if !g.Cfg.Maps {
			return g.scalar()
		}
		k := keyTypes[r.Intn(len(keyTypes))]
		var v reflect.Type
		switch {
		case deep && r.Chance(1, 3):
			v = g.Message(depth + 1)
			if r.Bool() {
				v = reflect.PointerTo(v)
				if !g.Cfg.RefOnly && r.Chance(1, 8) {
					v = reflect.PointerTo(v)
				}
			}
		default:
			v = g.scalar()
			if v.Kind() == reflect.Array {
				v = reflect.TypeOf([]byte(nil))
			}
		}
		return reflect.MapOf(k, v)
	}
}

// ---------------------------------------------------------------------------
// values

type Filler struct {
	R *core.Rand
	// MaxLen, when > 0, caps the length of repeated fields.
	MaxLen int
	// NoSpecialFloats avoids NaN (NaN != NaN complicates reference comparison).
	NoNaN bool
	// Big allows repeated fields of thousands of elements.
	Big bool
	// NoNilMapValues: pointer-typed map values are never nil (the reference implementation reads
	// an entry without value as the empty message, which Go tells apart from nil).
	NoNilMapValues bool
}

var lenPool = []int{0, 0, 1, 1, 2, 3, 9, 10, 11, 12, 19, 20, 21, 22, 40, 41}

func (f *Filler) length() int {
	r := f.R
	if f.Big && r.Chance(1, 40) {
		return r.Range(1000, 5000)
	}
	n := lenPool[r.Intn(len(lenPool))]
	if f.MaxLen > 0 && n > f.MaxLen {
		n = f.MaxLen
	}
	return n
}

func (f *Filler) Fill(v reflect.Value, depth int) {
	r := f.R
	t := v.Type()
	if depth > 12 { // recursive declared types: stop here (zero value)
		return
	}
	switch t {
	case TMsg:
		v.Field(0).SetBytes(r.Bytes(r.Intn(20)))
		return
	case TGogo:
		v.Field(0).SetUint(uint64(uint32(r.Uint64B())))
		v.Field(1).SetUint(uint64(uint32(r.Uint64B())))
		return
	case TGogoV:
		if !r.Chance(1, 3) { // else size 0
			v.Field(0).SetBytes(r.Bytes(r.Range(1, 20)))
		}
		return
	case TRaw:
		// a valid message: field 1 varint
		v.SetBytes([]byte{8, byte(r.Intn(128))})
		return
	}
	switch t.Kind() {
	case reflect.Bool:
		v.SetBool(r.Bool())
	case reflect.Int, reflect.Int64:
		v.SetInt(r.Int64())
	case reflect.Int32:
		x := r.Int64()
		switch r.Intn(4) {
		case 0:
			x = math.MaxInt32
		case 1:
			x = math.MinInt32
		default:
			x = int64(int32(x))
		}
		v.SetInt(x)
	case reflect.Uint, reflect.Uint64:
		v.SetUint(r.Uint64B())
	case reflect.Uint32:
		if r.Chance(1, 4) {
			v.SetUint(math.MaxUint32)
		} else {
			v.SetUint(uint64(uint32(r.Uint64B())))
		}
	case reflect.Float32:
		v.SetFloat(float64(r.Float32(!f.NoNaN)))
	case reflect.Float64:
		v.SetFloat(r.Float(!f.NoNaN))
	case reflect.String:
		v.SetString(r.String(12))
	case reflect.Slice:
		if t.Elem().Kind() == reflect.Uint8 {
			switch r.Intn(5) {
			case 0:
				v.SetZero()
			case 1:
				v.SetBytes([]byte{})
			default:
				v.SetBytes(r.Bytes(r.Len(200)))
			}
			return
		}
		if r.Chance(1, 6) {
			v.SetZero()
			return
		}
		n := f.length()
		if depth > 2 && n > 3 {
			n = 3
		}
		s := reflect.MakeSlice(t, n, n)
		for i := 0; i < n; i++ {
			e := s.Index(i)
			if e.Kind() == reflect.Pointer {
				e.Set(f.nonNil(t.Elem(), depth+1))
			} else {
				f.Fill(e, depth+1)
			}
		}
		v.Set(s)
	case reflect.Array:
		if t.Len() == 0 {
			return
		}
		for i := 0; i < t.Len(); i++ {
			v.Index(i).SetUint(uint64(r.Intn(256)))
		}
		switch r.Intn(8) {
		case 0, 1:
			v.SetZero()
		case 2, 3: // sparse: all zero except one byte (first, last, anywhere) - zero tests by words
			v.SetZero()
			i := []int{0, t.Len() - 1, r.Intn(t.Len())}[r.Intn(3)]
			v.Index(i).SetUint(uint64(1 + r.Intn(255)))
		}
	case reflect.Pointer:
		if r.Chance(1, 4) {
			v.SetZero()
			return
		}
		if t.Elem().Kind() == reflect.Struct && (t.Elem().Size() == 0 || !hasExported(t.Elem())) {
			v.SetZero() // pointer to a message without any encodable field is outside the claimed domain
			return
		}
		p := reflect.New(t.Elem())
		f.Fill(p.Elem(), depth+1)
		if t.Elem().Kind() == reflect.Pointer && p.Elem().IsNil() {
			v.SetZero() // &nil has no protobuf representation distinct from nil
			return
		}
		v.Set(p)
	case reflect.Map:
		if r.Chance(1, 6) {
			v.SetZero()
			return
		}
		n := r.Len(8)
		if depth > 2 && n > 2 {
			n = 2
		}
		m := reflect.MakeMapWithSize(t, n)
		for i := 0; i < n; i++ {
			k := reflect.New(t.Key()).Elem()
			f.Fill(k, depth+1)
			e := reflect.New(t.Elem()).Elem()
			if e.Kind() == reflect.Pointer && !f.NoNilMapValues && r.Chance(1, 5) {
				// a nil value: the entry carries its key only
			} else if e.Kind() == reflect.Pointer {
				e.Set(f.nonNil(t.Elem(), depth+1))
			} else {
				f.Fill(e, depth+1)
			}
			m.SetMapIndex(k, e)
		}
		v.Set(m)
	case reflect.Struct:
		for i := 0; i < t.NumField(); i++ {
			if !v.Field(i).CanSet() || t.Field(i).Name == "Salt" {
				continue
			}
			if r.Chance(1, 5) {
				continue
			}
			f.Fill(v.Field(i), depth+1)
		}
	}
}

// nonNil builds a value of pointer type t that is non-nil at every level (*T, **T): a nil
// element of a repeated field, or a pointer to a nil pointer, has no representation.
func (f *Filler) nonNil(t reflect.Type, depth int) reflect.Value {
	p := reflect.New(t.Elem())
	if t.Elem().Kind() == reflect.Pointer {
		p.Elem().Set(f.nonNil(t.Elem(), depth))
	} else {
		f.Fill(p.Elem(), depth)
	}
	return p
}

func (f *Filler) NewValue(t reflect.Type) reflect.Value {
	p := reflect.New(t)
	f.Fill(p.Elem(), 0)
	return p.Elem()
}

// NilEquivalent, when set, is asked whether a non-nil pointer of the original value may come
// back as nil (used by C03 to set aside one known finding: a pointer to a message whose
// encoding is empty). NilEquivalentHits counts how often that happened.
var NilEquivalent func(a reflect.Value) bool
var NilEquivalentHits int

// Equal is the equality of the round-trip statement: exported fields only, nil == empty for
// slices and maps, floats equal when == or both NaN.  diff describes the first difference.
func Equal(a, b reflect.Value) (ok bool, diff string) {
	return eq(a, b, "", false)
}

// EqualSign is Equal with -0 and +0 told apart: what the wire format carries (a fixed-width
// float) has a sign, and the library writes a -0 explicitly.
func EqualSign(a, b reflect.Value) (ok bool, diff string) {
	return eq(a, b, "", true)
}

func eq(a, b reflect.Value, path string, sign bool) (bool, string) {
	if a.Type() != b.Type() {
		return false, path + ": types differ"
	}
	switch a.Kind() {
	case reflect.Float32, reflect.Float64:
		x, y := a.Float(), b.Float()
		// the same number with the same sign (-0 is not +0: the wire format carries it), or
		// both NaN
		if (x == y && (!sign || math.Signbit(x) == math.Signbit(y))) || (x != x && y != y) {
			return true, ""
		}
		return false, fmt.Sprintf("%s: %v != %v (sign bit %v / %v)", path, x, y, math.Signbit(x), math.Signbit(y))
	case reflect.Slice:
		if a.Len() != b.Len() {
			return false, fmt.Sprintf("%s: len %d != %d", path, a.Len(), b.Len())
		}
		for i := 0; i < a.Len(); i++ {
			if ok, d := eq(a.Index(i), b.Index(i), fmt.Sprintf("%s[%d]", path, i), sign); !ok {
				return false, d
			}
		}
		return true, ""
	case reflect.Array:
		for i := 0; i < a.Len(); i++ {
			if ok, d := eq(a.Index(i), b.Index(i), fmt.Sprintf("%s[%d]", path, i), sign); !ok {
				return false, d
			}
		}
		return true, ""
	case reflect.Map:
		if a.Len() != b.Len() {
			return false, fmt.Sprintf("%s: map len %d != %d", path, a.Len(), b.Len())
		}
		it := a.MapRange()
		for it.Next() {
			bv := b.MapIndex(it.Key())
			if !bv.IsValid() {
				return false, fmt.Sprintf("%s: key %v missing", path, it.Key())
			}
			if ok, d := eq(it.Value(), bv, fmt.Sprintf("%s[%v]", path, it.Key()), sign); !ok {
				return false, d
			}
		}
		return true, ""
	case reflect.Pointer:
		if a.IsNil() != b.IsNil() {
			if !a.IsNil() && NilEquivalent != nil && NilEquivalent(a) {
				NilEquivalentHits++
				return true, ""
			}
			return false, fmt.Sprintf("%s: nil-ness differs (%v vs %v)", path, a.IsNil(), b.IsNil())
		}
		if a.IsNil() {
			return true, ""
		}
		return eq(a.Elem(), b.Elem(), path+"*", sign)
	case reflect.Struct:
		for i := 0; i < a.NumField(); i++ {
			if !a.Type().Field(i).IsExported() {
				continue
			}
			if ok, d := eq(a.Field(i), b.Field(i), path+"."+a.Type().Field(i).Name, sign); !ok {
				return false, d
			}
		}
		return true, ""
	case reflect.Bool:
		if a.Bool() != b.Bool() {
			return false, fmt.Sprintf("%s: %v != %v", path, a.Bool(), b.Bool())
		}
	case reflect.Int, reflect.Int32, reflect.Int64, reflect.Int8, reflect.Int16:
		if a.Int() != b.Int() {
			return false, fmt.Sprintf("%s: %d != %d", path, a.Int(), b.Int())
		}
	case reflect.Uint, reflect.Uint32, reflect.Uint64, reflect.Uint8, reflect.Uint16:
		if a.Uint() != b.Uint() {
			return false, fmt.Sprintf("%s: %d != %d", path, a.Uint(), b.Uint())
		}
	case reflect.String:
		if a.String() != b.String() {
			return false, fmt.Sprintf("%s: %q != %q", path, a.String(), b.String())
		}
	}
	return true, ""
}

func hasExported(t reflect.Type) bool {
	for i := 0; i < t.NumField(); i++ {
		if t.Field(i).IsExported() {
			return true
		}
	}
	return false
}

// HasMap reports whether values of t can contain a map (non-deterministic encoding).
func HasMap(t reflect.Type) bool { return hasMap(t, map[reflect.Type]bool{}) }

func hasMap(t reflect.Type, seen map[reflect.Type]bool) bool {
	if seen[t] {
		return false
	}
	seen[t] = true
	switch t.Kind() {
	case reflect.Map:
		return true
	case reflect.Pointer, reflect.Slice, reflect.Array:
		return hasMap(t.Elem(), seen)
	case reflect.Struct:
		for i := 0; i < t.NumField(); i++ {
			if hasMap(t.Field(i).Type, seen) {
				return true
			}
		}
	}
	return false
}

func TypeString(t reflect.Type) string {
	s := t.String()
	if len(s) > 300 {
		s = s[:300] + "…"
	}
	return s
}

// ---- declared recursive message types ------------------------------------------------------------

// RecMapMsg reaches itself through the values of a map (by value) and through a slice.
type RecMapMsg struct {
	Kids map[string]RecMapMsg
	V    int32
	L    []RecMapMsg
}

// PetOwner / Pet: mutually recursive, one of them held by value.
type PetOwner struct {
	Pet *Pet
	N   int32
}
type Pet struct {
	Owner PetOwner
	S     string
	Rest  map[int32]*Pet
}

// RecTagged: the same with protobuf tags and large field numbers.
type RecTagged struct {
	Next *RecTagged          `protobuf:"bytes,4096,opt,name=next"`
	M    map[int64]RecTagged `protobuf:"bytes,2,rep,name=m" protobuf_key:"varint,1,opt,name=key" protobuf_val:"bytes,2,opt,name=value"`
	V    uint64              `protobuf:"fixed64,70000,opt,name=v"`
	Ps   []*RecTagged        `protobuf:"bytes,300,rep,name=ps"`
}

// UnexpFirst has unexported fields before and between exported ones (implicit numbering).
type UnexpFirst struct {
	a int
	B int64
	c string
	D string
	E []int32
}

// RecLibrary lists declared types used next to the generated ones.
var RecLibrary = []reflect.Type{reflect.TypeOf(RecMapMsg{}), reflect.TypeOf(PetOwner{}), reflect.TypeOf(Pet{}), reflect.TypeOf(RecTagged{}), reflect.TypeOf(UnexpFirst{})}
