package jtypes

import (
	stdjson "encoding/json"
	"fmt"
	"math"
	"math/big"
	"net"
	"reflect"
	"strings"
	"time"

	"verifharness/core"
)

// Cfg bounds the type grammar.
type Cfg struct {
	MaxDepth   int
	MaxFields  int
	Leaves     bool // use library leaf types
	ErrLeaves  bool // include failing / odd marshalers
	Iface      bool // interface-typed fields
	Special    bool // Number, RawMessage, time.Time, []byte
	FloatKinds bool
	Salt       string // when set, a tag `v:"salt"` makes the struct types unique
}

var DefaultCfg = Cfg{MaxDepth: 3, MaxFields: 8, Leaves: true, Iface: true, Special: true, FloatKinds: true}

var scalarTypes = []reflect.Type{
	reflect.TypeOf(false), reflect.TypeOf(int(0)), reflect.TypeOf(int8(0)), reflect.TypeOf(int16(0)), reflect.TypeOf(int32(0)), reflect.TypeOf(int64(0)),
	reflect.TypeOf(uint(0)), reflect.TypeOf(uint8(0)), reflect.TypeOf(uint16(0)), reflect.TypeOf(uint32(0)), reflect.TypeOf(uint64(0)), reflect.TypeOf(uintptr(0)),
	reflect.TypeOf(""), reflect.TypeOf(""), reflect.TypeOf(""),
}
var floatTypes = []reflect.Type{reflect.TypeOf(float32(0)), reflect.TypeOf(float64(0))}

var (
	TNumber   = reflect.TypeOf(stdjson.Number(""))
	TRaw      = reflect.TypeOf(stdjson.RawMessage(nil))
	TTime     = reflect.TypeOf(time.Time{})
	TBytes    = reflect.TypeOf([]byte(nil))
	TAny      = reflect.TypeOf((*any)(nil)).Elem()
	TDuration = reflect.TypeOf(time.Duration(0))
)

var keyTypes = []reflect.Type{
	reflect.TypeOf(""), reflect.TypeOf(""), reflect.TypeOf(NStr("")), reflect.TypeOf(int(0)), reflect.TypeOf(int8(0)), reflect.TypeOf(int64(0)), reflect.TypeOf(uint(0)), reflect.TypeOf(uint8(0)),
	reflect.TypeOf(uint64(0)), reflect.TypeOf(int16(0)), reflect.TypeOf(uint32(0)), reflect.TypeOf(KeyT{}), reflect.TypeOf(KInt(0)), reflect.TypeOf(SStr("")), reflect.TypeOf(NInt8(0)),
}

// specialised map types of the package
var specialMaps = []reflect.Type{
	reflect.TypeOf(map[string]any(nil)), reflect.TypeOf(map[string]stdjson.RawMessage(nil)), reflect.TypeOf(map[string]string(nil)),
	reflect.TypeOf(map[string][]string(nil)), reflect.TypeOf(map[string]bool(nil)),
}

type Gen struct {
	R   *core.Rand
	Cfg Cfg
	n   int
}

func New(r *core.Rand, cfg Cfg) *Gen { return &Gen{R: r, Cfg: cfg} }

func (g *Gen) scalar() reflect.Type {
	r := g.R
	if g.Cfg.FloatKinds && r.Chance(1, 6) {
		return floatTypes[r.Intn(2)]
	}
	if g.Cfg.Special && r.Chance(1, 7) {
		return core.Pick(r, []reflect.Type{TNumber, TRaw, TTime, TBytes, TBytes})
	}
	if g.Cfg.Leaves && r.Chance(1, 6) {
		return Leaves[r.Intn(len(Leaves))]
	}
	if g.Cfg.ErrLeaves && r.Chance(1, 10) {
		return ErrLeaves[r.Intn(len(ErrLeaves))]
	}
	return scalarTypes[r.Intn(len(scalarTypes))]
}

// Type returns a random type of the JSON-supported grammar.
func (g *Gen) Type(depth int) reflect.Type {
	r := g.R
	if depth >= g.Cfg.MaxDepth {
		return g.scalar()
	}
	switch r.Intn(14) {
	case 0, 1, 2, 3:
		return g.scalar()
	case 4:
		return reflect.PointerTo(g.Type(depth + 1))
	case 5, 6:
		return reflect.SliceOf(g.Type(depth + 1))
	case 7:
		return reflect.ArrayOf(core.Pick(r, []int{0, 1, 1, 2, 3}), g.Type(depth+1))
	case 8, 9:
		if r.Chance(1, 3) {
			return specialMaps[r.Intn(len(specialMaps))]
		}
		return reflect.MapOf(keyTypes[r.Intn(len(keyTypes))], g.Type(depth+1))
	case 10:
		if g.Cfg.Iface {
			return TAny
		}
		return g.scalar()
	default:
		return g.Struct(depth)
	}
}

var punctNames = []string{"a-b", "a.b", "a b", "a/b", "a$b", "é", "a,b", `a"b`, `a\b`, "<x>", "a&b", "日本", "_", "0", "a:b", "!#$%&()*+-./:;<=>?@[]^_{|}~ "}

func (g *Gen) fieldName(i int) string {
	// exported Go identifier
	base := []string{"A", "B", "C", "Dd", "Ee", "Field", "X", "Y", "Zz", "Name", "ID", "Value", "Aa", "AA", "aA"}
	n := base[i%len(base)]
	if n[0] >= 'a' && n[0] <= 'z' {
		n = "Q" + n
	}
	return fmt.Sprintf("%s%d", n, i)
}

func (g *Gen) tag(i int, names *[]string) string {
	r := g.R
	var name string
	switch r.Intn(12) {
	case 0:
		name = "-"
	case 1:
		name = punctNames[r.Intn(len(punctNames))]
	case 2: // duplicate / case variant of an earlier name
		if len(*names) > 0 {
			name = (*names)[r.Intn(len(*names))]
			if r.Bool() {
				name = strings.ToUpper(name)
			}
		}
	case 3, 4, 5:
		name = core.Pick(r, []string{"a", "b", "id", "name", "key", "x", "A", "Key", "value"}) + fmt.Sprint(i%4)
	case 6:
		name = strings.Repeat("k", r.Range(1, 70))
	default:
		name = "" // no name in tag: Go field name is used
	}
	opts := ""
	if r.Chance(1, 4) {
		opts += ",omitempty"
	}
	if r.Chance(1, 7) {
		opts += ",string"
	}
	if r.Chance(1, 20) {
		opts += ",unknownopt"
	}
	if name == "-" && r.Bool() {
		opts = "," // `json:"-,"` means the name is "-"
	}
	if name == "" && opts == "" && r.Bool() {
		return ""
	}
	if name != "" && name != "-" {
		*names = append(*names, name)
	}
	t := `json:"` + strings.ReplaceAll(strings.ReplaceAll(name, `\`, `\\`), `"`, `\"`) + opts + `"`
	return t
}

// Struct builds a struct type with reflect.StructOf.
func (g *Gen) Struct(depth int) reflect.Type {
	r := g.R
	n := r.Intn(g.Cfg.MaxFields + 1)
	if r.Chance(1, 12) {
		n = core.Pick(r, []int{0, 1, 1, 31, 32, 33, 40})
		if n > 8 && depth > 0 {
			n = 1
		}
	}
	for attempt := 0; attempt < 4; attempt++ {
		var fs []reflect.StructField
		var names []string
		for i := 0; i < n; i++ {
			var ft reflect.Type
			if n > 16 {
				ft = g.scalar()
			} else {
				ft = g.Type(depth + 1)
			}
			f := reflect.StructField{Name: g.fieldName(i), Type: ft, Tag: reflect.StructTag(g.tag(i, &names))}
			if r.Chance(1, 25) {
				f.Name = "u" + f.Name
				f.PkgPath = "verifharness/gen/jtypes"
			}
			fs = append(fs, f)
		}
		if g.Cfg.Salt != "" {
			g.n++
			fs = append(fs, reflect.StructField{Name: "Salt", Type: reflect.TypeOf(0), Tag: reflect.StructTag(fmt.Sprintf(`json:"salt,omitempty" v:"%s.%d"`, g.Cfg.Salt, g.n))})
		}
		var t reflect.Type
		func() {
			defer func() {
				if recover() != nil {
					t = nil
				}
			}()
			t = reflect.StructOf(fs)
		}()
		if t != nil {
			return t
		}
	}
	return reflect.TypeOf(Emb{})
}

// TypeString is a short description for samples.
func TypeString(t reflect.Type) string {
	s := t.String()
	if len(s) > 300 {
		s = s[:300] + "…"
	}
	return s
}

// ---------------------------------------------------------------------------
// values

type Filler struct {
	R *core.Rand
	// NoNaN avoids NaN/Inf (which make Marshal fail).
	NoNaN    bool
	MaxLen   int
	MaxDepth int
	// RawValid forces RawMessage / MRaw contents to be valid JSON.
	RawValid bool
	// NoInvalidUTF8 keeps strings valid UTF-8.
	ValidUTF8 bool
}

var rawPool = []string{`1`, `"s"`, `null`, `true`, `{"a":1}`, `[1,2]`, ` {"a" : [1, 2] } `, `"<&>"`, `" "`, `{"k":"v\n"}`, `1.50`, `-0`, `1e2`, "[\n1\n]", `{}`, `[]`, `"é"`,
	// backslashes before quotes, escaped quotes, spaces inside and between strings
	`{"dir": "C:\\tmp\\", "name": "a  b"}`, `["\\", " x ", "\\\"", " y "]`, `"\\" `, `{"a\\": "\\<script> ", "b \"q\" ": [ "\\\\" , " " ]}`, `["\\u005c\\", " < "]`}
var rawBadPool = []string{``, `{`, `1 2`, `nul`, `"abc`, `{"a":}`, `[1,]`, `01`, "\"\x01\"", `tru`, ` `}
var numPool = []string{"0", "1", "-1", "1.5", "1e2", "123456789012345678901234567890", "-0", "0.1", "1E-2", "3.14"}
var numBadPool = []string{"", "01", "1.", "abc", "-", "1e", "0x10", " 1", "1 ", "+1", ".5", "1_000", "Infinity", "NaN"}

func (f *Filler) str() string {
	s := f.R.String(f.maxLen())
	if f.ValidUTF8 {
		s = strings.ToValidUTF8(s, "?")
	}
	return s
}

func (f *Filler) maxLen() int {
	if f.MaxLen == 0 {
		return 6
	}
	return f.MaxLen
}

// Fill sets v (which must be settable) to a random value.
func (f *Filler) Fill(v reflect.Value, depth int) {
	r := f.R
	t := v.Type()
	maxDepth := f.MaxDepth
	if maxDepth == 0 {
		maxDepth = 6
	}
	switch t {
	case reflect.TypeOf(big.Int{}):
		v.Set(reflect.ValueOf(*new(big.Int).Lsh(big.NewInt(r.Int64()), uint(r.Intn(70)))))
		return
	case reflect.TypeOf(big.Float{}):
		v.Set(reflect.ValueOf(*big.NewFloat(float64(r.Int64()) / 8)))
		return
	case reflect.TypeOf(net.IP(nil)):
		switch r.Intn(4) {
		case 0:
			v.SetBytes(nil)
		case 1:
			v.SetBytes(r.Bytes(16))
		default:
			v.SetBytes(r.Bytes(4))
		}
		return
	case TNumber:
		if f.RawValid || r.Chance(5, 6) {
			v.SetString(numPool[r.Intn(len(numPool))])
		} else {
			v.SetString(numBadPool[r.Intn(len(numBadPool))])
		}
		return
	case TRaw:
		switch {
		case r.Chance(1, 8):
			v.SetBytes(nil)
		case f.RawValid || r.Chance(5, 6):
			v.SetBytes([]byte(rawPool[r.Intn(len(rawPool))]))
		default:
			v.SetBytes([]byte(rawBadPool[r.Intn(len(rawBadPool))]))
		}
		return
	case TTime:
		ts := time.Unix(r.Int64()%4e9, int64(r.Intn(1e9)))
		switch r.Intn(5) {
		case 0:
			ts = time.Time{}
		case 1:
			ts = ts.UTC()
		case 2:
			ts = ts.In(time.FixedZone("X", r.Range(-12, 14)*3600+r.Intn(2)*1800))
		case 3:
			ts = time.Date(core.Pick(r, []int{0, 1, 9999, 10000, -1, 2000}), 1, 1, 0, 0, 0, 0, time.UTC)
			if r.Bool() {
				// within hours of a year boundary, in a zone where the local year is the other one
				ts = ts.Add(time.Duration(r.Range(-16, 16)) * time.Hour).In(time.FixedZone("", r.Range(-14, 14)*3600+r.Intn(2)*1800))
			}
		}
		v.Set(reflect.ValueOf(ts))
		return
	case reflect.TypeOf(MRaw{}):
		if f.RawValid || r.Chance(3, 4) {
			v.Field(0).SetString(rawPool[r.Intn(len(rawPool))])
		} else {
			v.Field(0).SetString(rawBadPool[r.Intn(len(rawBadPool))])
		}
		return
	case reflect.TypeOf(MErr{}), reflect.TypeOf(TErr{}):
		if !f.RawValid && r.Chance(1, 3) {
			v.Field(0).SetString("err")
		} else {
			v.Field(0).SetString(f.str())
		}
		return
	}
	switch t.Kind() {
	case reflect.Bool:
		v.SetBool(r.Bool())
	case reflect.Int, reflect.Int8, reflect.Int16, reflect.Int32, reflect.Int64:
		x := r.Int64()
		bits := t.Bits()
		if bits < 64 {
			// keep in range, biased to the boundaries
			lim := int64(1) << (bits - 1)
			switch r.Intn(4) {
			case 0:
				x = lim - 1
			case 1:
				x = -lim
			default:
				x = x % lim
			}
		}
		v.SetInt(x)
	case reflect.Uint, reflect.Uint8, reflect.Uint16, reflect.Uint32, reflect.Uint64, reflect.Uintptr:
		x := r.Uint64B()
		if bits := t.Bits(); bits < 64 {
			if r.Chance(1, 4) {
				x = 1<<bits - 1
			} else {
				x %= 1 << bits
			}
		}
		v.SetUint(x)
	case reflect.Float32:
		fl := float64(r.Float32(!f.NoNaN))
		v.SetFloat(fl)
	case reflect.Float64:
		fl := r.Float(!f.NoNaN)
		if !f.NoNaN && !r.Chance(1, 12) && (math.IsNaN(fl) || math.IsInf(fl, 0)) {
			fl = 1.25
		}
		v.SetFloat(fl)
	case reflect.String:
		v.SetString(f.str())
	case reflect.Pointer:
		if depth > maxDepth || r.Chance(1, 4) {
			v.SetZero()
			return
		}
		p := reflect.New(t.Elem())
		f.Fill(p.Elem(), depth+1)
		v.Set(p)
	case reflect.Slice:
		if r.Chance(1, 6) {
			v.SetZero()
			return
		}
		n := r.Len(f.collMax(depth))
		if depth > maxDepth {
			n = 0
		}
		if t.Elem().Kind() == reflect.Uint8 {
			n = r.Len(70)
		}
		s := reflect.MakeSlice(t, n, n+r.Intn(3))
		for i := 0; i < n; i++ {
			f.Fill(s.Index(i), depth+1)
		}
		v.Set(s)
	case reflect.Array:
		for i := 0; i < t.Len(); i++ {
			f.Fill(v.Index(i), depth+1)
		}
	case reflect.Map:
		if r.Chance(1, 6) {
			v.SetZero()
			return
		}
		n := r.Len(f.collMax(depth))
		if depth > maxDepth {
			n = 0
		}
		m := reflect.MakeMapWithSize(t, n)
		for i := 0; i < n; i++ {
			k := reflect.New(t.Key()).Elem()
			f.Fill(k, depth+1)
			if k.Type() == reflect.TypeOf(SK{}) || k.Type() == reflect.TypeOf(AK{}) { // distinct texts, see below
				x := i*7919 + r.Intn(7000)
				if k.Kind() == reflect.Struct {
					k.Field(0).Set(reflect.ValueOf(&x))
				} else {
					k.Index(0).Set(reflect.ValueOf(&x))
				}
			}
			if k.Kind() == reflect.Pointer && !k.IsNil() && k.Elem().Kind() == reflect.Struct && k.Elem().NumField() > 0 && k.Elem().Field(0).CanInt() {
				// distinct pointers must not render as the same key text: the order of equal
				// keys is unspecified on both sides
				k.Elem().Field(0).SetInt(int64(i)*7919 + int64(r.Intn(7000)))
			}
			if k.Kind() == reflect.Pointer && k.IsNil() && i > 0 {
				continue // at most one nil key, it renders as ""
			}
			e := reflect.New(t.Elem()).Elem()
			f.Fill(e, depth+1)
			m.SetMapIndex(k, e)
		}
		v.Set(m)
	case reflect.Struct:
		for i := 0; i < t.NumField(); i++ {
			fv := v.Field(i)
			if !fv.CanSet() {
				continue
			}
			if t.Field(i).Name == "Salt" {
				continue
			}
			if r.Chance(1, 5) {
				continue // leave zero (omitempty)
			}
			f.Fill(fv, depth+1)
		}
	case reflect.Interface:
		if t.NumMethod() != 0 && depth <= maxDepth {
			// non-empty interfaces: error, fmt.Stringer, Linker - nil, a typed nil pointer or a value
			switch {
			case t == reflect.TypeOf((*error)(nil)).Elem():
				if f.R.Chance(1, 3) {
					v.Set(reflect.ValueOf(fmt.Errorf("e%d", f.R.Intn(9))))
				}
			case t == reflect.TypeOf((*fmt.Stringer)(nil)).Elem():
				switch f.R.Intn(4) {
				case 0:
					v.Set(reflect.ValueOf((*strg)(nil)))
				case 1:
					v.Set(reflect.ValueOf(&strg{f.str()}))
				}
			case t == reflect.TypeOf((*Linker)(nil)).Elem():
				switch f.R.Intn(4) {
				case 0:
					v.Set(reflect.ValueOf((*LNode)(nil)))
				case 1:
					if depth < 4 {
						n := &LNode{V: f.R.Intn(100)}
						f.Fill(reflect.ValueOf(n).Elem().Field(1), depth+1)
						v.Set(reflect.ValueOf(n))
					}
				}
			}
			return
		}
		if t.NumMethod() != 0 || depth > maxDepth {
			return
		}
		if x := f.anyValue(depth); x != nil {
			v.Set(reflect.ValueOf(x))
		} else {
			v.SetZero()
		}
	}
}

func (f *Filler) collMax(depth int) int {
	if depth >= 3 {
		return 3
	}
	return 12
}

func (f *Filler) anyValue(depth int) any {
	r := f.R
	switch r.Intn(14) {
	case 0:
		return nil
	case 1:
		return r.Bool()
	case 2:
		if !f.NoNaN && r.Chance(1, 5) { // unsupported values held directly by an interface
			return []float64{math.NaN(), math.Inf(1), math.Inf(-1)}[r.Intn(3)]
		}
		return float64(r.Int64() % 100000)
	case 3:
		return f.str()
	case 4:
		return int(r.Int64())
	case 5:
		return []any{f.str(), 1.5, nil}
	case 6:
		m := map[string]any{}
		for i := r.Intn(4); i > 0; i-- {
			m[f.str()] = r.Intn(100)
		}
		return m
	case 7:
		x := r.Intn(100)
		return &x
	case 8:
		return MV{f.str()}
	case 9:
		return &MP{f.str()}
	case 10:
		return Emb{E1: r.Intn(10), E2: f.str()}
	case 11:
		return stdjson.Number(numPool[r.Intn(len(numPool))])
	case 12:
		switch r.Intn(4) { // typed nils: an interface holding one is not empty
		case 0:
			return (*int)(nil)
		case 1:
			return map[string]int(nil)
		case 2:
			return []int(nil)
		}
		return uint8(r.Intn(256))
	default:
		return []int{1, 2, 3}
	}
}

// NewValue allocates and fills a value of type t; the result is addressable.
func (f *Filler) NewValue(t reflect.Type) reflect.Value {
	p := reflect.New(t)
	f.Fill(p.Elem(), 0)
	return p.Elem()
}
