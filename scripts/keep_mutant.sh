#!/bin/bash
# usage: keep_mutant.sh <Cxx> <k> "<checks run + result>"   (after verify_mutant.sh said CONFIRMED)
p=$1; k=$2; note=$3
src=/tmp/mut/$p/m$k; dst=/verif/seeded/$p-m$k
mkdir -p "$dst"; cp "$src"/patch.diff "$dst"/; cp "$src"/demo* "$dst"/ 2>/dev/null
jq --arg note "$note" '. + {confirmed_by_me: "scripts/verify_mutant.sh in a scratch worktree: demo passes without patch, existing suite passes with patch, demo fails with patch", checks_run: $note}' "$src/meta.json" > "$dst/meta.json"
echo kept $dst
