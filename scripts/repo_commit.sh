#!/bin/bash
# usage: repo_commit.sh <message-file> <file>...   -- runs the whole /repo suite (guard off) and commits only when it passes
export GOFLAGS=-mod=mod GOPROXY=off GOSUMDB=off GOTOOLCHAIN=local
msg=$1; shift
cd /repo || exit 2
if [ -n "$(gofmt -l json proto thrift iso8601 ascii internal 2>/dev/null)" ]; then echo "gofmt differences:"; gofmt -l json proto thrift iso8601 ascii internal; exit 1; fi
if ! go test -vet=off -count=1 ./... > /tmp/repo_commit.log 2>&1; then echo "TESTS FAILED - not committed"; tail -20 /tmp/repo_commit.log; exit 1; fi
git add "$@" && git commit -q -F "$msg" && git log --oneline | head -1
